#include "simcore.h"

#include <QCoreApplication>
#include <QEvent>
#include <QRandomGenerator>
#include <QUuid>
#include <algorithm>
#include <sys/time.h>
#include <time.h>

extern uint qGlobalPostedEventsCount();

namespace sim {

int64_t g_now_ms = 0;
Prng g_libRng(1);
uint64_t g_libRngDraws = 0;
static Dispatcher *s_instance = nullptr;

Dispatcher::Dispatcher(QObject *parent) : QAbstractEventDispatcher(parent) { s_instance = this; }
Dispatcher *Dispatcher::instance() { return s_instance; }

bool Dispatcher::processEvents(QEventLoop::ProcessEventsFlags)
{
    // Only used if library code calls QCoreApplication::processEvents(); nested loops are excluded from workloads.
    QCoreApplication::sendPostedEvents();
    return false;
}

bool Dispatcher::hasPendingEvents() { return qGlobalPostedEventsCount() > 0; }

void Dispatcher::registerTimer(int timerId, int interval, Qt::TimerType timerType, QObject *object)
{
    m_timers.insert(timerId, Timer { timerId, interval, timerType, object, g_now_ms + std::max(interval, 0), ++m_seq });
}

bool Dispatcher::unregisterTimer(int timerId) { return m_timers.remove(timerId) > 0; }

bool Dispatcher::unregisterTimers(QObject *object)
{
    bool any = false;
    for (auto it = m_timers.begin(); it != m_timers.end();) {
        if (it->object == object) {
            it = m_timers.erase(it);
            any = true;
        } else {
            ++it;
        }
    }
    return any;
}

QList<QAbstractEventDispatcher::TimerInfo> Dispatcher::registeredTimers(QObject *object) const
{
    QList<TimerInfo> out;
    for (const auto &t : m_timers) {
        if (t.object == object) {
            out.append(TimerInfo(t.id, t.interval, t.type));
        }
    }
    return out;
}

int Dispatcher::remainingTime(int timerId)
{
    auto it = m_timers.find(timerId);
    if (it == m_timers.end()) {
        return -1;
    }
    return (int)std::max<int64_t>(0, it->due - g_now_ms);
}

void Dispatcher::reset()
{
    m_timers.clear();
    m_seq = 0;
    timersFired = 0;
    g_now_ms = 0;
}

int64_t Dispatcher::nextTimerDue() const
{
    int64_t best = -1;
    for (const auto &t : m_timers) {
        if (best < 0 || t.due < best) {
            best = t.due;
        }
    }
    return best;
}

int Dispatcher::dueCount() const
{
    int n = 0;
    for (const auto &t : m_timers) {
        if (t.due <= g_now_ms) {
            ++n;
        }
    }
    return n;
}

bool Dispatcher::fireOneDue(int k)
{
    QVector<Timer> due;
    for (const auto &t : m_timers) {
        if (t.due <= g_now_ms) {
            due.append(t);
        }
    }
    if (due.isEmpty()) {
        return false;
    }
    std::sort(due.begin(), due.end(), [](const Timer &a, const Timer &b) {
        return a.due != b.due ? a.due < b.due : a.seq < b.seq;
    });
    const Timer t = due[k % due.size()];
    // re-arm (QTimer single-shot timers unregister themselves in their timerEvent)
    auto it = m_timers.find(t.id);
    it->due = g_now_ms + std::max(t.interval, 1);
    it->seq = ++m_seq;
    ++timersFired;
    QTimerEvent ev(t.id);
    QCoreApplication::sendEvent(t.object, &ev);
    return true;
}

void Dispatcher::drainPosted() { QCoreApplication::sendPostedEvents(); }
void Dispatcher::drainDeferredDeletes() { QCoreApplication::sendPostedEvents(nullptr, QEvent::DeferredDelete); }

void Dispatcher::advanceTo(int64_t t)
{
    if (t > g_now_ms) {
        g_now_ms = t;
    }
}

void settle()
{
    for (int i = 0; i < 200; ++i) {
        QCoreApplication::sendPostedEvents();
        QCoreApplication::sendPostedEvents(nullptr, QEvent::DeferredDelete);
        if (qGlobalPostedEventsCount() == 0) {
            break;
        }
    }
}

}  // namespace sim

// ------------------------------------------------------------------------------------------------
// Link-time seams: symbols defined in the executable win over the shared libraries for every call
// made from the (statically linked) library under test and, for libc symbols, from Qt as well.
// ------------------------------------------------------------------------------------------------

extern "C" int clock_gettime(clockid_t, struct timespec *ts)
{
    int64_t ms = sim::g_now_ms;
    ts->tv_sec = sim::EPOCH_BASE_S + ms / 1000;
    ts->tv_nsec = (ms % 1000) * 1000000;
    return 0;
}

extern "C" int gettimeofday(struct timeval *tv, void *)
{
    int64_t ms = sim::g_now_ms;
    if (tv) {
        tv->tv_sec = sim::EPOCH_BASE_S + ms / 1000;
        tv->tv_usec = (ms % 1000) * 1000;
    }
    return 0;
}

extern "C" time_t time(time_t *t)
{
    time_t v = sim::EPOCH_BASE_S + sim::g_now_ms / 1000;
    if (t) {
        *t = v;
    }
    return v;
}

// All QRandomGenerator draws made by the library (global() and system(): generate(), bounded(), fillRange())
// funnel into this exported non-inline member.
void QRandomGenerator::_fillRange(void *buffer, void *bufferEnd)
{
    auto *p = static_cast<quint32 *>(buffer);
    auto *e = static_cast<quint32 *>(bufferEnd);
    for (; p < e; ++p) {
        *p = (quint32)sim::g_libRng.next();
        ++sim::g_libRngDraws;
    }
}

QUuid QUuid::createUuid()
{
    uint64_t a = sim::g_libRng.next(), b = sim::g_libRng.next();
    sim::g_libRngDraws += 2;
    QUuid u;
    u.data1 = (uint)(a >> 32);
    u.data2 = (ushort)(a >> 16);
    u.data3 = (ushort)((a & 0x0fff) | 0x4000);
    for (int i = 0; i < 8; ++i) {
        u.data4[i] = (uchar)(b >> (8 * i));
    }
    u.data4[0] = (u.data4[0] & 0x3f) | 0x80;
    return u;
}
