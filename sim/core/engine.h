#pragma once
#include "plan.h"
#include "simcore.h"

namespace sim {

class Engine
{
public:
    virtual ~Engine() = default;
    virtual QString property() const = 0;
    virtual QString describe() const = 0;   // one line: what runs real, what is stubbed
    virtual Plan generate(quint64 seed, const QString &tier) = 0;
    virtual RunResult execute(const Plan &plan, bool verbose) = 0;
    // shrinking support: simpler variants of one op (tried in order), and of the knobs
    virtual QVector<Op> simplerOps(const Op &) { return {}; }
    virtual QVector<Plan> simplerKnobs(const Plan &) { return {}; }
    // ops that must never be removed by ddmin (e.g. fixed prologue)
    virtual bool removable(const Plan &, int) { return true; }
};

void registerEngine(Engine *);
Engine *findEngine(const QString &property);
QStringList engineIds();

// called by runner before every execution: fresh clock, timers, library randomness, stanza id counter
void resetWorld(quint64 seed);

struct EngineRegistrar {
    explicit EngineRegistrar(Engine *e) { registerEngine(e); }
};

// helper for engines: collects trace lines + hash
class Trace
{
public:
    explicit Trace(bool verbose) : verbose(verbose) { }
    void log(const QString &line)
    {
        hash.add(line);
        ++count;
        if (verbose) {
            lines << QStringLiteral("[%1ms] ").arg(g_now_ms) + line;
            if (liveTrace()) {
                fprintf(stderr, "%s\n", qPrintable(lines.last()));
            }
        }
    }
    static bool liveTrace()
    {
        static const bool on = qEnvironmentVariableIsSet("QXSIM_LIVE");
        return on;
    }
    // verbose-only detail: never hashed, so verbose and non-verbose runs have the same trace hash
    void note(const QString &line)
    {
        if (verbose) {
            lines << QStringLiteral("[%1ms]   . ").arg(g_now_ms) + line;
        }
    }
    TraceHash hash;
    QStringList lines;
    int count = 0;
    bool verbose;
};

}  // namespace sim
