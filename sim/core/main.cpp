// qxsim — deterministic simulation runner.
//   qxsim list
//   qxsim run <prop> --start S --count N [--stride K] [--tier quick|thorough]      one JSON line per run
//   qxsim plan <prop> --seed X [--tier T]                                          print the generated plan
//   qxsim trace <prop> --seed X [--tier T]                                         verbose trace of one run
//   qxsim shrink <prop> --seed X --cls C --sig S --out file [--tier T]             minimise, write replay file
//   qxsim replay <file> [--verbose]                                                exit 1 + VIOLATION line iff it reproduces
#include "engine.h"

#include <QCoreApplication>
#include <QFile>
#include <QJsonDocument>
#include <QLoggingCategory>
#include <cstdio>
#include <fcntl.h>
#include <sys/wait.h>
#include <unistd.h>
#include <cstdlib>

namespace sim {

static QMap<QString, Engine *> &registry()
{
    static QMap<QString, Engine *> r;
    return r;
}
void registerEngine(Engine *e) { registry()[e->property()] = e; }
Engine *findEngine(const QString &p) { return registry().value(p, nullptr); }
QStringList engineIds() { return registry().keys(); }

void resetStanzaIds();   // net/testclient.cpp
void resetDns();         // net/simdns.cpp

void resetWorld(quint64 seed)
{
    settle();
    Dispatcher::instance()->reset();
    g_libRng = Prng(derive(seed, "lib"));
    g_libRngDraws = 0;
    resetStanzaIds();
    resetDns();
}

}  // namespace sim

using namespace sim;

// sanitizer reports are classified by exit code 77; leaks are checked explicitly by engines that care
extern "C" __attribute__((used)) const char *__asan_default_options()
{
    return "exitcode=77:detect_leaks=0:abort_on_error=0:allocator_may_return_null=1:detect_stack_use_after_return=0";
}
extern "C" __attribute__((used)) const char *__ubsan_default_options() { return "print_stacktrace=1:halt_on_error=1:exitcode=77"; }

static QString argValue(const QStringList &args, const QString &name, const QString &def = {})
{
    int i = args.indexOf(name);
    return (i >= 0 && i + 1 < args.size()) ? args[i + 1] : def;
}

static void out(const QString &s)
{
    QByteArray b = s.toUtf8();
    fwrite(b.constData(), 1, b.size(), stdout);
    fputc('\n', stdout);
    fflush(stdout);
}

static RunResult runPlan(Engine *e, const Plan &p, bool verbose)
{
    resetWorld(p.seed);
    RunResult r = e->execute(p, verbose);
    settle();
    return r;
}

static bool hasViolation(const RunResult &r, const QString &cls, const QString &sig)
{
    for (const auto &v : r.violations) {
        if (v.cls == cls && (sig.isEmpty() || v.signature == sig)) {
            return true;
        }
    }
    return false;
}

// run a plan in a forked child and bring back (trace hash, matching violation's detail); the calling process itself
// never executes library code, so every such run starts from pristine process-wide state (statics of the library
// under test included) exactly like a fresh-process replay
struct IsolatedResult {
    bool ok = false;
    quint64 traceHash = 0;
    bool violates = false;
    QString detail;
};
static IsolatedResult runIsolated(Engine *e, const Plan &p, const QString &cls, const QString &sig)
{
    IsolatedResult ir;
    int fds[2];
    if (pipe(fds) != 0) {
        return ir;
    }
    fflush(stdout);
    fflush(stderr);
    pid_t pid = fork();
    if (pid == 0) {
        close(fds[0]);
        int devnull = open("/dev/null", O_WRONLY);
        if (devnull >= 0) {
            dup2(devnull, 2);
        }
        const RunResult r = runPlan(e, p, false);
        QString detail;
        bool v = false;
        for (const auto &x : r.violations) {
            if (x.cls == cls && (sig.isEmpty() || x.signature == sig)) {
                v = true;
                detail = x.detail;
                break;
            }
        }
        const QByteArray line = QByteArray::number(r.traceHash, 16) + ' ' + (v ? '1' : '0') + ' ' + detail.toUtf8().toBase64() + '\n';
        ssize_t w = write(fds[1], line.constData(), (size_t)line.size());
        (void)w;
        _exit(0);
    }
    close(fds[1]);
    QByteArray buf;
    char tmp[4096];
    ssize_t n;
    while ((n = read(fds[0], tmp, sizeof tmp)) > 0) {
        buf.append(tmp, (int)n);
    }
    close(fds[0]);
    int status = 0;
    if (pid > 0) {
        waitpid(pid, &status, 0);
    }
    const auto parts = buf.trimmed().split(' ');
    if (parts.size() >= 2) {
        ir.ok = true;
        ir.traceHash = parts[0].toULongLong(nullptr, 16);
        ir.violates = parts[1] == "1";
        ir.detail = parts.size() > 2 ? QString::fromUtf8(QByteArray::fromBase64(parts[2])) : QString();
    }
    return ir;
}

static Plan shrink(Engine *e, Plan plan, const QString &cls, const QString &sig, int &execs, int budget)
{
    // every candidate runs in a forked child: a candidate that crashes (assertion, sanitizer report) is simply
    // "not the same violation" and cannot take the shrinker down with it
    auto fails = [&](const Plan &p) {
        if (execs >= budget) {
            return false;
        }
        ++execs;
        fflush(stdout);
        fflush(stderr);
        pid_t pid = fork();
        if (pid == 0) {
            int devnull = open("/dev/null", O_WRONLY);
            if (devnull >= 0) {
                dup2(devnull, 2);
            }
            const bool f = hasViolation(runPlan(e, p, false), cls, sig);
            _exit(f ? 1 : 0);
        }
        if (pid < 0) {
            return hasViolation(runPlan(e, p, false), cls, sig);
        }
        int status = 0;
        waitpid(pid, &status, 0);
        return WIFEXITED(status) && WEXITSTATUS(status) == 1;
    };
    // ddmin over ops
    int n = 2;
    while (plan.ops.size() >= 2 && execs < budget) {
        int size = plan.ops.size();
        int chunk = std::max(1, size / n);
        bool reduced = false;
        for (int start = 0; start < size; start += chunk) {
            Plan cand = plan;
            QVector<Op> kept;
            for (int i = 0; i < size; ++i) {
                bool inChunk = i >= start && i < start + chunk;
                if (!inChunk || !e->removable(plan, i)) {
                    kept.append(plan.ops[i]);
                }
            }
            if (kept.size() == size) {
                continue;
            }
            cand.ops = kept;
            if (fails(cand)) {
                plan = cand;
                n = std::max(n - 1, 2);
                reduced = true;
                break;
            }
        }
        if (!reduced) {
            if (chunk == 1) {
                break;
            }
            n = std::min(n * 2, size);
        }
    }
    // one-at-a-time until fixpoint
    bool progress = true;
    while (progress && execs < budget) {
        progress = false;
        for (int i = plan.ops.size() - 1; i >= 0; --i) {
            if (!e->removable(plan, i)) {
                continue;
            }
            Plan cand = plan;
            cand.ops.remove(i);
            if (fails(cand)) {
                plan = cand;
                progress = true;
            }
        }
    }
    // per-op simplification
    for (int i = 0; i < plan.ops.size() && execs < budget; ++i) {
        bool again = true;
        int guard = 0;
        while (again && guard++ < 8) {
            again = false;
            for (const auto &s : e->simplerOps(plan.ops[i])) {
                Plan cand = plan;
                cand.ops[i] = s;
                if (fails(cand)) {
                    plan = cand;
                    again = true;
                    break;
                }
            }
        }
    }
    // knob simplification
    bool again = true;
    int guard = 0;
    while (again && guard++ < 20 && execs < budget) {
        again = false;
        for (const auto &cand : e->simplerKnobs(plan)) {
            if (fails(cand)) {
                plan = cand;
                again = true;
                break;
            }
        }
    }
    return plan;
}

int main(int argc, char **argv)
{
    qputenv("QT_HASH_SEED", "0");
    qSetGlobalQHashSeed(0);
    qputenv("QT_LOGGING_RULES", "*.debug=false;qt.*=false");
    auto *disp = new Dispatcher;
    QCoreApplication::setEventDispatcher(disp);
    QCoreApplication app(argc, argv);
    const QStringList args = app.arguments();
    if (args.size() < 2) {
        fprintf(stderr, "usage: qxsim list|run|plan|trace|shrink|replay ...\n");
        return 2;
    }
    const QString cmd = args[1];
    if (cmd == QLatin1String("list")) {
        for (const auto &id : engineIds()) {
            out(id + QStringLiteral("\t") + findEngine(id)->describe());
        }
        return 0;
    }
    if (cmd == QLatin1String("replay")) {
        QFile f(args.value(2));
        if (!f.open(QIODevice::ReadOnly)) {
            fprintf(stderr, "cannot open replay file\n");
            return 2;
        }
        const auto doc = QJsonDocument::fromJson(f.readAll()).object();
        Plan plan = Plan::fromJson(doc.value(QStringLiteral("plan")).toObject());
        Engine *e = findEngine(plan.property);
        if (!e) {
            fprintf(stderr, "unknown property %s\n", qPrintable(plan.property));
            return 2;
        }
        const auto expect = doc.value(QStringLiteral("expect")).toObject();
        const bool verbose = args.contains(QStringLiteral("--verbose"));
        RunResult r = runPlan(e, plan, verbose);
        if (verbose) {
            for (const auto &l : r.trace) {
                out(l);
            }
        }
        out(QString::fromUtf8(QJsonDocument(r.toJson(plan.seed)).toJson(QJsonDocument::Compact)));
        const QString cls = expect.value(QStringLiteral("cls")).toString();
        const QString sig = expect.value(QStringLiteral("sig")).toString();
        if (hasViolation(r, cls, sig)) {
            out(QStringLiteral("VIOLATION property=%1 replay=%2").arg(plan.property, args.value(2)));
            return 1;
        }
        out(QStringLiteral("NOT-REPRODUCED property=%1 expected cls=%2 sig=%3").arg(plan.property, cls, sig));
        return 0;
    }

    Engine *e = findEngine(args.value(2));
    if (!e) {
        fprintf(stderr, "unknown property '%s'\n", qPrintable(args.value(2)));
        return 2;
    }
    const QString tier = argValue(args, QStringLiteral("--tier"), QStringLiteral("quick"));

    if (cmd == QLatin1String("run")) {
        const quint64 start = argValue(args, QStringLiteral("--start"), QStringLiteral("1")).toULongLong();
        const quint64 count = argValue(args, QStringLiteral("--count"), QStringLiteral("1")).toULongLong();
        const quint64 stride = argValue(args, QStringLiteral("--stride"), QStringLiteral("1")).toULongLong();
        const bool withPlan = args.contains(QStringLiteral("--with-plan"));
        for (quint64 i = 0; i < count; ++i) {
            const quint64 seed = start + i * stride;
            printf("START %llu\n", (unsigned long long)seed);
            fflush(stdout);
            resetWorld(seed);
            Plan plan = e->generate(seed, tier);
            plan.property = e->property();
            plan.seed = seed;
            plan.tier = tier;
            RunResult r = runPlan(e, plan, false);
            QJsonObject o = r.toJson(seed);
            if (withPlan || !r.violations.isEmpty() || i < 3) {
                o[QStringLiteral("plan")] = plan.brief();
            }
            out(QString::fromUtf8(QJsonDocument(o).toJson(QJsonDocument::Compact)));
        }
        return 0;
    }
    const quint64 seed = argValue(args, QStringLiteral("--seed"), QStringLiteral("1")).toULongLong();
    resetWorld(seed);
    Plan plan = e->generate(seed, tier);
    plan.property = e->property();
    plan.seed = seed;
    plan.tier = tier;
    if (cmd == QLatin1String("plan")) {
        out(QString::fromUtf8(QJsonDocument(plan.toJson()).toJson(QJsonDocument::Indented)));
        return 0;
    }
    if (cmd == QLatin1String("trace")) {
        RunResult r = runPlan(e, plan, true);
        out(QStringLiteral("PLAN ") + plan.brief(1000));
        for (const auto &l : r.trace) {
            out(l);
        }
        out(QString::fromUtf8(QJsonDocument(r.toJson(seed)).toJson(QJsonDocument::Compact)));
        return r.violations.isEmpty() ? 0 : 1;
    }
    if (cmd == QLatin1String("shrink")) {
        const QString cls = argValue(args, QStringLiteral("--cls"));
        const QString sig = argValue(args, QStringLiteral("--sig"));
        const QString outFile = argValue(args, QStringLiteral("--out"));
        const IsolatedResult r0 = runIsolated(e, plan, cls, sig);
        const IsolatedResult r0b = runIsolated(e, plan, cls, sig);
        if (!r0.ok || !r0b.ok || r0.traceHash != r0b.traceHash) {
            out(QStringLiteral("NONDETERMINISTIC seed=%1 %2 vs %3").arg(seed).arg(r0.traceHash, 0, 16).arg(r0b.traceHash, 0, 16));
            return 2;
        }
        if (!r0.violates) {
            out(QStringLiteral("NOT-REPRODUCED seed=%1 cls=%2 sig=%3").arg(seed).arg(cls, sig));
            return 2;
        }
        int execs = 0;
        const int before = plan.ops.size();
        const int budget = argValue(args, QStringLiteral("--budget"), QStringLiteral("1500")).toInt();
        Plan small = budget > 0 ? shrink(e, plan, cls, sig, execs, budget) : plan;
        const IsolatedResult rs = runIsolated(e, small, cls, sig);
        const QString detail = rs.detail;
        QJsonObject doc;
        doc[QStringLiteral("plan")] = small.toJson();
        QJsonObject expect;
        expect[QStringLiteral("cls")] = cls;
        expect[QStringLiteral("sig")] = sig;
        expect[QStringLiteral("detail")] = detail;
        expect[QStringLiteral("hash")] = QString::number(rs.traceHash, 16);
        doc[QStringLiteral("expect")] = expect;
        doc[QStringLiteral("shrink")] = QJsonObject { { QStringLiteral("ops_before"), before }, { QStringLiteral("ops_after"), small.ops.size() }, { QStringLiteral("executions"), execs } };
        QFile f(outFile);
        if (!f.open(QIODevice::WriteOnly)) {
            fprintf(stderr, "cannot write %s\n", qPrintable(outFile));
            return 2;
        }
        f.write(QJsonDocument(doc).toJson(QJsonDocument::Indented));
        f.close();
        out(QStringLiteral("SHRUNK ops %1 -> %2 in %3 executions: %4").arg(before).arg(small.ops.size()).arg(execs).arg(detail));
        return 0;
    }
    fprintf(stderr, "unknown command\n");
    return 2;
}
