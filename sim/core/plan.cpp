#include "plan.h"

#include <QJsonDocument>

namespace sim {

QJsonObject Op::toJson() const
{
    QJsonObject o;
    o[QStringLiteral("k")] = kind;
    if (!a.isEmpty()) {
        QJsonArray arr;
        for (auto v : a) {
            arr.append((double)v);
        }
        o[QStringLiteral("a")] = arr;
    }
    if (!s.isEmpty()) {
        o[QStringLiteral("s")] = QJsonArray::fromStringList(s);
    }
    if (salt) {
        o[QStringLiteral("salt")] = (double)salt;
    }
    return o;
}

Op Op::fromJson(const QJsonObject &o)
{
    Op op;
    op.kind = o.value(QStringLiteral("k")).toString();
    for (const auto &v : o.value(QStringLiteral("a")).toArray()) {
        op.a.append((qint64)v.toDouble());
    }
    for (const auto &v : o.value(QStringLiteral("s")).toArray()) {
        op.s.append(v.toString());
    }
    op.salt = (quint32)o.value(QStringLiteral("salt")).toDouble();
    return op;
}

QString Op::brief() const
{
    QString r = kind;
    if (!a.isEmpty() || !s.isEmpty()) {
        r += QLatin1Char('(');
        QStringList parts;
        for (auto v : a) {
            parts << QString::number(v);
        }
        for (const auto &v : s) {
            parts << (v.size() > 48 ? v.left(45) + QStringLiteral("...") : v);
        }
        r += parts.join(QLatin1Char(',')) + QLatin1Char(')');
    }
    return r;
}

QJsonObject Plan::toJson() const
{
    QJsonObject o;
    o[QStringLiteral("property")] = property;
    o[QStringLiteral("seed")] = QString::number(seed);
    o[QStringLiteral("tier")] = tier;
    QJsonObject k;
    for (auto it = knobs.begin(); it != knobs.end(); ++it) {
        k[it.key()] = (double)it.value();
    }
    o[QStringLiteral("knobs")] = k;
    QJsonObject sk;
    for (auto it = sknobs.begin(); it != sknobs.end(); ++it) {
        sk[it.key()] = it.value();
    }
    o[QStringLiteral("sknobs")] = sk;
    QJsonArray arr;
    for (const auto &op : ops) {
        arr.append(op.toJson());
    }
    o[QStringLiteral("ops")] = arr;
    return o;
}

Plan Plan::fromJson(const QJsonObject &o)
{
    Plan p;
    p.property = o.value(QStringLiteral("property")).toString();
    p.seed = o.value(QStringLiteral("seed")).toString().toULongLong();
    p.tier = o.value(QStringLiteral("tier")).toString(QStringLiteral("quick"));
    const auto k = o.value(QStringLiteral("knobs")).toObject();
    for (auto it = k.begin(); it != k.end(); ++it) {
        p.knobs[it.key()] = (qint64)it.value().toDouble();
    }
    const auto sk = o.value(QStringLiteral("sknobs")).toObject();
    for (auto it = sk.begin(); it != sk.end(); ++it) {
        p.sknobs[it.key()] = it.value().toString();
    }
    for (const auto &v : o.value(QStringLiteral("ops")).toArray()) {
        p.ops.append(Op::fromJson(v.toObject()));
    }
    return p;
}

QString Plan::brief(int maxOps) const
{
    QStringList parts;
    for (auto it = knobs.begin(); it != knobs.end(); ++it) {
        parts << it.key() + QLatin1Char('=') + QString::number(it.value());
    }
    for (auto it = sknobs.begin(); it != sknobs.end(); ++it) {
        parts << it.key() + QLatin1Char('=') + (it.value().size() > 40 ? it.value().left(37) + QStringLiteral("...") : it.value());
    }
    QString r = QStringLiteral("{") + parts.join(QLatin1Char(' ')) + QStringLiteral("} ");
    QStringList o;
    for (int i = 0; i < ops.size() && i < maxOps; ++i) {
        o << ops[i].brief();
    }
    if (ops.size() > maxOps) {
        o << QStringLiteral("...+%1").arg(ops.size() - maxOps);
    }
    return r + o.join(QStringLiteral("; "));
}

QJsonObject RunResult::toJson(quint64 seed) const
{
    QJsonObject o;
    o[QStringLiteral("seed")] = QString::number(seed);
    o[QStringLiteral("hash")] = QString::number(traceHash, 16);
    o[QStringLiteral("nt")] = nontrivial;
    o[QStringLiteral("steps")] = steps;
    o[QStringLiteral("simMs")] = (double)simMs;
    if (!caseKey.isEmpty()) {
        o[QStringLiteral("case")] = caseKey;
    }
    QJsonObject f;
    for (auto it = faults.begin(); it != faults.end(); ++it) {
        f[it.key()] = it.value();
    }
    o[QStringLiteral("faults")] = f;
    QJsonObject p;
    for (auto it = probes.begin(); it != probes.end(); ++it) {
        p[it.key()] = it.value();
    }
    o[QStringLiteral("probes")] = p;
    QJsonArray v;
    for (const auto &x : violations) {
        QJsonObject vo;
        vo[QStringLiteral("cls")] = x.cls;
        vo[QStringLiteral("sig")] = x.signature;
        vo[QStringLiteral("detail")] = x.detail;
        vo[QStringLiteral("step")] = x.step;
        v.append(vo);
    }
    o[QStringLiteral("violations")] = v;
    return o;
}

}  // namespace sim
