// Simulated clock, event dispatcher (timers + posted events) and library randomness.
#pragma once
#include "prng.h"

#include <QAbstractEventDispatcher>
#include <QMap>
#include <functional>

namespace sim {

// ---- simulated clock (read by clock_gettime/gettimeofday/time interposers in interpose.cpp) ----
extern int64_t g_now_ms;          // simulated milliseconds since run start
constexpr int64_t EPOCH_BASE_S = 1700000000;   // what wall-clock 0 maps to

// ---- library randomness (read by QRandomGenerator::_fillRange / QUuid::createUuid interposers) ----
extern Prng g_libRng;
extern uint64_t g_libRngDraws;

class Dispatcher : public QAbstractEventDispatcher
{
    Q_OBJECT
public:
    struct Timer {
        int id;
        int interval;
        Qt::TimerType type;
        QObject *object;
        int64_t due;     // sim ms
        uint64_t seq;    // registration order, for determinism among equal due times
    };

    explicit Dispatcher(QObject *parent = nullptr);
    static Dispatcher *instance();

    // QAbstractEventDispatcher
    bool processEvents(QEventLoop::ProcessEventsFlags flags) override;
    bool hasPendingEvents() override;
    void registerSocketNotifier(QSocketNotifier *) override { }
    void unregisterSocketNotifier(QSocketNotifier *) override { }
    void registerTimer(int timerId, int interval, Qt::TimerType timerType, QObject *object) override;
    bool unregisterTimer(int timerId) override;
    bool unregisterTimers(QObject *object) override;
    QList<TimerInfo> registeredTimers(QObject *object) const override;
    int remainingTime(int timerId) override;
    void wakeUp() override { }
    void interrupt() override { }
    void flush() override { }

    // simulator API
    void reset();                       // drop all timers, clock to 0
    int timerCount() const { return m_timers.size(); }
    int64_t nextTimerDue() const;       // -1 if none
    // fire exactly one due timer (the k-th among those due at <= now, ordered by (due, seq)); returns false if none
    bool fireOneDue(int k = 0);
    int dueCount() const;
    // posted events (queued invocations) and deferred deletes
    static void drainPosted();
    static void drainDeferredDeletes();
    // advance clock to t (never backwards)
    static void advanceTo(int64_t t);
    uint64_t timersFired = 0;

private:
    QMap<int, Timer> m_timers;
    uint64_t m_seq = 0;
};

// convenience: run posted events + deferred deletes until nothing more is queued (bounded)
void settle();

}  // namespace sim
