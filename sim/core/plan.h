// Plan = what a simulated run executes. A run is a pure function of (code, Plan).
#pragma once
#include "prng.h"

#include <QJsonArray>
#include <QJsonObject>
#include <QMap>
#include <QString>
#include <QStringList>
#include <QVector>

namespace sim {

struct Op {
    QString kind;             // engine-specific
    QVector<qint64> a;        // integer arguments
    QStringList s;            // string arguments
    quint32 salt = 0;         // per-op randomness (faults/splits attached to this op), stable under deletion of other ops

    qint64 arg(int i, qint64 def = 0) const { return i < a.size() ? a[i] : def; }
    QString str(int i, const QString &def = {}) const { return i < s.size() ? s[i] : def; }
    QJsonObject toJson() const;
    static Op fromJson(const QJsonObject &);
    QString brief() const;
};

inline Op mkop(const QString &kind, QVector<qint64> a = {}, QStringList s = {}, quint32 salt = 0)
{
    Op o;
    o.kind = kind;
    o.a = std::move(a);
    o.s = std::move(s);
    o.salt = salt;
    return o;
}

struct Plan {
    QString property;
    quint64 seed = 0;
    QString tier = QStringLiteral("quick");
    QMap<QString, qint64> knobs;
    QMap<QString, QString> sknobs;
    QVector<Op> ops;

    qint64 knob(const QString &k, qint64 def = 0) const { return knobs.value(k, def); }
    QString sknob(const QString &k, const QString &def = {}) const { return sknobs.value(k, def); }
    QJsonObject toJson() const;
    static Plan fromJson(const QJsonObject &);
    QString brief(int maxOps = 40) const;
};

struct Violation {
    QString cls;         // violation class (oracle that fired), stable
    QString signature;   // names the failing call site / input class / history shape, never a seed
    QString detail;      // human readable
    int step = -1;
};

struct RunResult {
    quint64 traceHash = 0;
    bool nontrivial = false;
    int steps = 0;
    qint64 simMs = 0;
    QMap<QString, int> faults;   // fault kinds that actually fired
    QMap<QString, int> probes;   // "rare condition reached" probes
    QVector<Violation> violations;
    QStringList trace;           // only filled when verbose
    QString caseKey;             // optional: engine-defined key for "distinct case" counting (else traceHash)

    QJsonObject toJson(quint64 seed) const;
};

}  // namespace sim
