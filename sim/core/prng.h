// Seeded PRNG: one integer decides everything. splitmix64 for seeding / hashing, xoshiro-like stream.
#pragma once
#include <cstdint>
#include <cstring>
#include <string>
#include <QByteArray>
#include <QString>

namespace sim {

inline uint64_t splitmix64(uint64_t &x)
{
    uint64_t z = (x += 0x9e3779b97f4a7c15ULL);
    z = (z ^ (z >> 30)) * 0xbf58476d1ce4e5b9ULL;
    z = (z ^ (z >> 27)) * 0x94d049bb133111ebULL;
    return z ^ (z >> 31);
}

inline uint64_t mix64(uint64_t a, uint64_t b)
{
    uint64_t x = a ^ (b * 0x9e3779b97f4a7c15ULL + 0x7f4a7c15ULL);
    return splitmix64(x);
}

inline uint64_t hashStr(const char *s)
{
    uint64_t h = 1469598103934665603ULL;
    for (; *s; ++s) {
        h ^= (unsigned char)*s;
        h *= 1099511628211ULL;
    }
    return h;
}

// derive an independent stream seed from (seed, name)
inline uint64_t derive(uint64_t seed, const char *name) { return mix64(seed, hashStr(name)); }

class Prng
{
public:
    explicit Prng(uint64_t seed = 0) : s(seed) { }
    uint64_t next() { return splitmix64(s); }
    // uniform in [0, n)  (n > 0)
    uint64_t uniform(uint64_t n) { return n ? next() % n : 0; }
    int64_t range(int64_t lo, int64_t hi) { return lo + (int64_t)uniform((uint64_t)(hi - lo + 1)); }
    bool chance(double p) { return (next() >> 11) * (1.0 / 9007199254740992.0) < p; }
    template<typename C>
    auto &pick(C &c) { return c[(int)uniform((uint64_t)c.size())]; }
    template<typename C>
    const auto &pick(const C &c) { return c[(int)uniform((uint64_t)c.size())]; }
    QByteArray bytes(int n)
    {
        QByteArray b(n, 0);
        for (int i = 0; i < n; ++i) {
            b[i] = (char)(next() & 0xff);
        }
        return b;
    }
    // weighted pick: returns index
    int weighted(std::initializer_list<int> w)
    {
        int total = 0;
        for (int x : w) {
            total += x;
        }
        int r = (int)uniform(total);
        int i = 0;
        for (int x : w) {
            if (r < x) {
                return i;
            }
            r -= x;
            ++i;
        }
        return 0;
    }

private:
    uint64_t s;
};

// running 64-bit trace hash (FNV-1a style over bytes), never draws randomness, never reads a clock
class TraceHash
{
public:
    void add(const QByteArray &b)
    {
        for (char c : b) {
            h ^= (unsigned char)c;
            h *= 1099511628211ULL;
        }
        h ^= 0xff;
        h *= 1099511628211ULL;
    }
    void add(const QString &s) { add(s.toUtf8()); }
    void add(const char *s) { add(QByteArray(s)); }
    void add(qint64 v) { add(QByteArray::number(v)); }
    uint64_t value() const { return h; }

private:
    uint64_t h = 1469598103934665603ULL;
};

}  // namespace sim
