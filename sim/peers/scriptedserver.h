// ScriptedServer: an XMPP server state machine per connection, written from the RFCs/XEPs with literal XML
// templates, QDomDocument and OpenSSL — it shares no codec and no crypto with the library under test.
#pragma once
#include "core/plan.h"
#include "net/simsocket.h"
#include "xmlutil.h"

#include <QMap>
#include <QSet>
#include <functional>

namespace sim {

struct ServerProfile {
    QString domain = QStringLiteral("example.org");
    bool headerVersion = true;
    bool headerId = true;
    int tls = 0;         // 0 absent, 1 optional, 2 required
    int tlsAnswer = 0;   // 0 <proceed/>, 1 <failure/>
    QStringList sasl1;   // mechanisms offered through RFC 6120 SASL (empty: not offered)
    QStringList sasl2;   // mechanisms offered through XEP-0388 (empty: not offered)
    bool bind2 = false;
    QStringList bind2Features;   // namespaces offered inline in bind2 (sm, carbons, csi)
    QStringList fastMechs;       // XEP-0484 mechanisms offered inline
    bool legacyAuth = false;     // XEP-0078 feature advertised
    bool legacyPlain = true, legacyDigest = true;
    bool bind = true;
    bool sessionFeature = false;
    int sm = 0;   // 0 off, 1 on (no resumption), 2 on with resumption
    QString smLocation;
    bool csi = false;
    bool scramFinalInSuccess = false;
    int scramIter = 4096;
    int saltLen = 16;
    int scramExt = 0;   // number of extension attributes a conforming server appends to its server-first message (RFC 5802 section 7)
    bool autoAck = true;        // answer <r/> with <a h/> at once
    bool autoRoster = true;     // answer roster get
    bool assignOtherJid = false;   // bind result carries another localpart/resource than asked for
    bool mute = false;             // fully scripted mode: the server never reacts by itself, it only records
    void set(const QString &key, const QString &value);   // change one field between connections
    QMap<QString, QString> quirks;   // misbehaviours, by topic (e.g. "scram" -> "wrong_v")

    static ServerProfile fromPlan(const Plan &);
    QString quirk(const char *topic) const { return quirks.value(QString::fromLatin1(topic)); }
};

struct SmSession {
    QString id;
    bool resumable = false;
    unsigned hIn = 0;              // stanzas received from the client on this SM session
    unsigned outSent = 0;          // stanzas sent to the client on this SM session
    unsigned outAcked = 0;         // highest h the client reported
    QList<QByteArray> outUnacked;  // stanzas sent, not yet acked by the client
    QString fullJid;
    bool attached = false;
};

struct ReceivedItem {
    int conn;           // connection index
    bool encrypted;
    QByteArray raw;
    QString tag, ns, id, type, to;
    bool isStanza = false;
    qint64 at;
    int smSeq = 0;      // position in the SM session's inbound count (1-based) if counted
    QString smId;
};

class ScriptedServer;

class ServerConn : public LinkEnd
{
public:
    ServerConn(ScriptedServer *srv, SimLink *link, int index);
    ~ServerConn() override;

    // LinkEnd
    void linkDeliver(const QByteArray &) override;
    void linkPeerClosed() override;
    void linkAborted(int) override;

    void send(const QByteArray &xml);           // raw write to the link
    void sendStanza(const QByteArray &xml);     // message/presence/iq to the client: SM accounting on the server side
    void closeStream(bool sendCloseTag = true); // orderly close from the server
    bool alive() const { return !closed && link && !link->dead; }

    ScriptedServer *srv;
    SimLink *link;
    int index;
    bool closed = false;
    bool gotHeader = false;
    bool authenticated = false;
    bool usedSasl2 = false;
    bool bound = false;
    bool sessionReady = false;       // the server has sent the element that completes negotiation
    bool resumedHere = false;        // this connection resumed an earlier stream-management session (the world's truth)
    qint64 readyOffset = -1;         // bytes written to the client up to and including that element
    qint64 bytesWritten = 0;
    QString streamId;
    QString user;                    // authenticated localpart
    QString fullJid;
    SmSession *sm = nullptr;
    int headersSeen = 0;
    int elementsSeen = 0;
    // SASL exchange state
    QString mech;
    int saslStep = 0;
    bool saslIsV2 = false;
    QByteArray cFirstBare, sFirst, gs2;
    QByteArray nonce, salt;
    QByteArray expectedServerSig;
    QByteArray digestNonce;
    QDomDocument pendingAuthDoc;     // SASL2 <authenticate/> kept for the success element
    QDomElement pendingAuth;
    bool serverProofDelivered = false;   // a correct server-final / rspauth has been written to the client
    QString legacyAuthId;

private:
    simxml::Framer framer;
    void onHeader(const QByteArray &raw);
    void onElement(const QByteArray &raw);
    void sendFeatures();
    void handleStartTls(const QDomElement &);
    void handleSaslStart(const QDomElement &, bool v2);
    void handleSaslResponse(const QDomElement &, bool v2);
    void saslChallenge(const QByteArray &data);
    void saslSuccess(const QByteArray &additional);
    void saslFailure(const char *condition);
    void handleIq(const QDomElement &, const QByteArray &raw);
    void handleSmNonza(const QDomElement &);
    void markReady();
    QString newSmSession(bool resumeRequested);
    QByteArray smEnabledXml(SmSession *);
};

class ScriptedServer
{
public:
    explicit ScriptedServer(const ServerProfile &p, quint64 seed);
    ~ScriptedServer();

    ServerProfile profile;
    Prng rng;
    QMap<QString, QString> accounts;        // localpart -> password
    QMap<QString, QString> fastTokens;      // token -> localpart
    QString fastTokenMech;
    QMap<QString, SmSession *> smSessions;
    QMap<QString, QByteArray> saltOf;       // SCRAM salt stored per account
    QList<ServerConn *> conns;
    QVector<ReceivedItem> received;         // everything the client ever sent, in order
    QStringList rosterItems;                // xml <item .../> strings
    QStringList log;                        // server-side notes (hashed into the trace by the world)
    QStringList conformance;                // independent-implementation mismatches found in client SASL messages
    int tokenCounter = 0;
    int smCounter = 0;
    int streamCounter = 0;
    int redirectsLeft = 0;
    QString redirectTarget;
    bool restarted = false;                 // "server restart": all SM sessions forgotten

    ServerConn *accept(SimLink *link);
    ServerConn *current() const;            // latest live connection, or null
    void forgetSmSessions();                // crash/restart analogue

    // hooks for property engines; return true if handled
    std::function<bool(ServerConn &, const QDomElement &, const QByteArray &raw)> onSessionStanza;
    std::function<void(ServerConn &)> onSessionReady;
    std::function<void(const QString &)> note;
    void say(const QString &s)
    {
        log << s;
        if (note) {
            note(s);
        }
    }
};

}  // namespace sim
