#include "scriptedserver.h"

#include "crypto.h"

using namespace simxml;

namespace sim {

static const char *NS_TLS = "urn:ietf:params:xml:ns:xmpp-tls";
static const char *NS_SASL = "urn:ietf:params:xml:ns:xmpp-sasl";
static const char *NS_SASL2 = "urn:xmpp:sasl:2";
static const char *NS_BIND = "urn:ietf:params:xml:ns:xmpp-bind";
static const char *NS_BIND2 = "urn:xmpp:bind:0";
static const char *NS_SESSION = "urn:ietf:params:xml:ns:xmpp-session";
static const char *NS_SM = "urn:xmpp:sm:3";
static const char *NS_FAST = "urn:xmpp:fast:0";
static const char *NS_IQAUTH = "jabber:iq:auth";
static const char *NS_STANZAS = "urn:ietf:params:xml:ns:xmpp-stanzas";

ServerProfile ServerProfile::fromPlan(const Plan &p)
{
    ServerProfile s;
    auto list = [&](const char *k) {
        const QString v = p.sknob(QString::fromLatin1(k));
        return v.isEmpty() ? QStringList() : v.split(QLatin1Char(','));
    };
    s.domain = p.sknob(QStringLiteral("domain"), s.domain);
    s.headerVersion = p.knob(QStringLiteral("hdrVersion"), 1);
    s.headerId = p.knob(QStringLiteral("hdrId"), 1);
    s.tls = (int)p.knob(QStringLiteral("tls"), 0);
    s.tlsAnswer = (int)p.knob(QStringLiteral("tlsAnswer"), 0);
    s.sasl1 = list("sasl1");
    s.sasl2 = list("sasl2");
    s.bind2 = p.knob(QStringLiteral("bind2"), 0);
    s.bind2Features = list("bind2f");
    s.fastMechs = list("fast");
    s.legacyAuth = p.knob(QStringLiteral("legacy"), 0);
    s.legacyPlain = p.knob(QStringLiteral("legacyPlain"), 1);
    s.legacyDigest = p.knob(QStringLiteral("legacyDigest"), 1);
    s.bind = p.knob(QStringLiteral("bind"), 1);
    s.sessionFeature = p.knob(QStringLiteral("session"), 0);
    s.sm = (int)p.knob(QStringLiteral("sm"), 0);
    s.smLocation = p.sknob(QStringLiteral("smLocation"));
    s.csi = p.knob(QStringLiteral("csi"), 0);
    s.scramFinalInSuccess = p.knob(QStringLiteral("scramFinalInSuccess"), 0);
    s.scramIter = (int)p.knob(QStringLiteral("scramIter"), 4096);
    s.saltLen = (int)p.knob(QStringLiteral("saltLen"), 16);
    s.scramExt = (int)p.knob(QStringLiteral("scramExt"), 0);
    s.autoAck = p.knob(QStringLiteral("autoAck"), 1);
    s.autoRoster = p.knob(QStringLiteral("autoRoster"), 1);
    s.assignOtherJid = p.knob(QStringLiteral("otherJid"), 0);
    s.mute = p.knob(QStringLiteral("mute"), 0);
    for (auto it = p.sknobs.begin(); it != p.sknobs.end(); ++it) {
        if (it.key().startsWith(QLatin1String("q."))) {
            s.quirks[it.key().mid(2)] = it.value();
        }
    }
    return s;
}

void ServerProfile::set(const QString &key, const QString &value)
{
    auto list = [&] { return value.isEmpty() ? QStringList() : value.split(QLatin1Char(',')); };
    if (key == QLatin1String("tls")) {
        tls = value.toInt();
    } else if (key == QLatin1String("tlsAnswer")) {
        tlsAnswer = value.toInt();
    } else if (key == QLatin1String("sasl1")) {
        sasl1 = list();
    } else if (key == QLatin1String("sasl2")) {
        sasl2 = list();
    } else if (key == QLatin1String("legacy")) {
        legacyAuth = value.toInt();
    } else if (key == QLatin1String("hdrVersion")) {
        headerVersion = value.toInt();
    } else if (key == QLatin1String("bind2")) {
        bind2 = value.toInt();
    } else if (key == QLatin1String("sm")) {
        sm = value.toInt();
    } else if (key == QLatin1String("mute")) {
        mute = value.toInt();
    } else if (key.startsWith(QLatin1String("q."))) {
        if (value.isEmpty()) {
            quirks.remove(key.mid(2));
        } else {
            quirks[key.mid(2)] = value;
        }
    }
}

// ---------------------------------------------------------------- ScriptedServer

ScriptedServer::ScriptedServer(const ServerProfile &p, quint64 seed) : profile(p), rng(derive(seed, "server")) { }

ScriptedServer::~ScriptedServer()
{
    qDeleteAll(conns);
    qDeleteAll(smSessions);
}

ServerConn *ScriptedServer::accept(SimLink *link)
{
    auto *c = new ServerConn(this, link, conns.size());
    conns.append(c);
    return c;
}

ServerConn *ScriptedServer::current() const
{
    for (int i = conns.size() - 1; i >= 0; --i) {
        if (conns[i]->alive()) {
            return conns[i];
        }
    }
    return nullptr;
}

void ScriptedServer::forgetSmSessions()
{
    for (auto *c : conns) {
        c->sm = nullptr;
    }
    qDeleteAll(smSessions);
    smSessions.clear();
    restarted = true;
}

// ---------------------------------------------------------------- ServerConn

ServerConn::ServerConn(ScriptedServer *srv, SimLink *link, int index) : srv(srv), link(link), index(index)
{
    link->end[1] = this;
}

ServerConn::~ServerConn()
{
    if (link && link->end[1] == this) {
        link->end[1] = nullptr;
    }
}

void ServerConn::send(const QByteArray &xml)
{
    if (!alive()) {
        return;
    }
    bytesWritten += xml.size();
    link->write(1, xml);
}

void ServerConn::sendStanza(const QByteArray &xml)
{
    if (sm) {
        sm->outSent++;
        sm->outUnacked.append(xml);
    }
    send(xml);
}

void ServerConn::closeStream(bool sendCloseTag)
{
    if (closed) {
        return;
    }
    if (sendCloseTag) {
        send("</stream:stream>");
    }
    closed = true;
    if (sm) {
        sm->attached = false;
    }
    link->closeFrom(1);
}

void ServerConn::linkPeerClosed()
{
    if (sm) {
        sm->attached = false;
    }
    if (!closed) {
        closed = true;
        link->closeFrom(1);
    }
}

void ServerConn::linkAborted(int)
{
    closed = true;
    if (sm) {
        sm->attached = false;
    }
}

void ServerConn::linkDeliver(const QByteArray &b)
{
    if (closed) {
        return;
    }
    framer.feed(b);
    const auto items = framer.take();
    for (const auto &it : items) {
        if (closed) {
            break;
        }
        switch (it.kind) {
        case Item::Header:
            onHeader(it.text);
            break;
        case Item::Element:
            onElement(it.text);
            break;
        case Item::Close: {
            ReceivedItem r { index, link->encrypted, it.text, QStringLiteral("/stream"), {}, {}, {}, {}, false, g_now_ms, 0, {} };
            srv->received.append(r);
            // a client that ends its stream deliberately gives up resumption
            if (sm) {
                sm->resumable = false;
            }
            closeStream(true);
            break;
        }
        case Item::Whitespace:
            break;
        }
    }
}

void ServerConn::onHeader(const QByteArray &raw)
{
    ++headersSeen;
    gotHeader = true;
    ReceivedItem r { index, link->encrypted, raw, QStringLiteral("stream"), {}, {}, {}, simxml::header(raw, "to"), false, g_now_ms, 0, {} };
    srv->received.append(r);
    const auto &p = srv->profile;
    if (p.mute) {
        return;
    }
    streamId = QStringLiteral("stream%1x%2").arg(++srv->streamCounter).arg(srv->rng.uniform(100000));
    QByteArray h = "<?xml version='1.0'?><stream:stream xmlns='jabber:client' xmlns:stream='http://etherx.jabber.org/streams' from='" + p.domain.toUtf8() + "'";
    if (p.headerId) {
        h += " id='" + streamId.toUtf8() + "'";
    }
    if (p.headerVersion) {
        h += " version='1.0'";
    }
    h += " xml:lang='en'>";
    send(h);
    if (srv->redirectsLeft > 0 && !authenticated) {
        --srv->redirectsLeft;
        srv->say(QStringLiteral("server: see-other-host -> %1").arg(srv->redirectTarget));
        send("<stream:error><see-other-host xmlns='urn:ietf:params:xml:ns:xmpp-streams'>" + srv->redirectTarget.toUtf8() + "</see-other-host></stream:error>");
        closeStream(true);
        return;
    }
    if (p.headerVersion) {
        sendFeatures();
    }
}

void ServerConn::sendFeatures()
{
    const auto &p = srv->profile;
    QByteArray f = "<stream:features>";
    if (!authenticated) {
        const bool needTls = p.tls != 0 && !link->encrypted;
        if (needTls) {
            f += QByteArray("<starttls xmlns='") + NS_TLS + "'>" + (p.tls == 2 ? "<required/>" : "") + "</starttls>";
        }
        const bool offerAuth = !(needTls && p.tls == 2) || p.quirk("features") == QLatin1String("auth_before_tls");
        if (offerAuth) {
            if (!p.sasl1.isEmpty()) {
                f += QByteArray("<mechanisms xmlns='") + NS_SASL + "'>";
                for (const auto &m : p.sasl1) {
                    f += "<mechanism>" + esc(m).toUtf8() + "</mechanism>";
                }
                f += "</mechanisms>";
            }
            if (!p.sasl2.isEmpty()) {
                f += QByteArray("<authentication xmlns='") + NS_SASL2 + "'>";
                for (const auto &m : p.sasl2) {
                    f += "<mechanism>" + esc(m).toUtf8() + "</mechanism>";
                }
                if (p.bind2 || !p.fastMechs.isEmpty() || p.sm == 2) {
                    f += "<inline>";
                    if (p.bind2) {
                        f += QByteArray("<bind xmlns='") + NS_BIND2 + "'>";
                        if (!p.bind2Features.isEmpty()) {
                            f += "<inline>";
                            for (const auto &v : p.bind2Features) {
                                f += "<feature var='" + v.toUtf8() + "'/>";
                            }
                            f += "</inline>";
                        }
                        f += "</bind>";
                    }
                    if (!p.fastMechs.isEmpty()) {
                        f += QByteArray("<fast xmlns='") + NS_FAST + "'>";
                        for (const auto &m : p.fastMechs) {
                            f += "<mechanism>" + m.toUtf8() + "</mechanism>";
                        }
                        f += "</fast>";
                    }
                    if (p.sm == 2) {
                        f += QByteArray("<sm xmlns='") + NS_SM + "'/>";
                    }
                    f += "</inline>";
                }
                f += "</authentication>";
            }
            if (p.legacyAuth) {
                f += "<auth xmlns='http://jabber.org/features/iq-auth'/>";
            }
        }
    } else {
        const bool offerBind = p.bind && !bound;
        if (offerBind) {
            f += QByteArray("<bind xmlns='") + NS_BIND + "'/>";
            if (p.sessionFeature) {
                f += QByteArray("<session xmlns='") + NS_SESSION + "'><optional/></session>";
            }
        }
        const bool offerSm = p.sm != 0 && !sm;
        if (offerSm) {
            f += QByteArray("<sm xmlns='") + NS_SM + "'/>";
        }
        if (p.csi) {
            f += "<csi xmlns='urn:xmpp:csi:0'/>";
        }
        if (!offerBind && !offerSm) {
            // nothing left to negotiate
            f += "</stream:features>";
            send(f);
            markReady();
            return;
        }
    }
    f += "</stream:features>";
    send(f);
}

void ServerConn::markReady()
{
    if (!sessionReady) {
        sessionReady = true;
        readyOffset = bytesWritten;
        srv->say(QStringLiteral("server: negotiation complete on conn %1 (offset %2)").arg(index).arg(readyOffset));
        if (srv->onSessionReady) {
            srv->onSessionReady(*this);
        }
    }
}

void ServerConn::onElement(const QByteArray &raw)
{
    ++elementsSeen;
    QDomDocument doc;
    const QDomElement el = parse(raw, doc);
    ReceivedItem r { index, link->encrypted, raw, el.tagName(), el.namespaceURI(), attr(el, "id"), attr(el, "type"), attr(el, "to"), false, g_now_ms, 0, {} };
    const QString tag = el.tagName();
    const QString ns = el.namespaceURI();
    r.isStanza = ns == QLatin1String("jabber:client") && (tag == QLatin1String("message") || tag == QLatin1String("presence") || tag == QLatin1String("iq"));
    if (r.isStanza && sm) {
        r.smSeq = (int)++sm->hIn;
        r.smId = sm->id;
    }
    srv->received.append(r);
    if (el.isNull()) {
        srv->say(QStringLiteral("server: unparsable element from client: ") + QString::fromUtf8(raw.left(80)));
        return;
    }
    if (srv->profile.mute) {
        return;
    }
    if (ns == QLatin1String(NS_TLS) && tag == QLatin1String("starttls")) {
        handleStartTls(el);
    } else if (ns == QLatin1String(NS_SASL) && tag == QLatin1String("auth")) {
        handleSaslStart(el, false);
    } else if (ns == QLatin1String(NS_SASL2) && tag == QLatin1String("authenticate")) {
        handleSaslStart(el, true);
    } else if ((ns == QLatin1String(NS_SASL) || ns == QLatin1String(NS_SASL2)) && tag == QLatin1String("response")) {
        handleSaslResponse(el, ns == QLatin1String(NS_SASL2));
    } else if ((ns == QLatin1String(NS_SASL) || ns == QLatin1String(NS_SASL2)) && tag == QLatin1String("abort")) {
        saslFailure("aborted");
    } else if (ns == QLatin1String(NS_SM)) {
        handleSmNonza(el);
    } else if (r.isStanza) {
        if (sessionReady && srv->onSessionStanza && srv->onSessionStanza(*this, el, raw)) {
            return;
        }
        if (tag == QLatin1String("iq")) {
            handleIq(el, raw);
        }
    }
}

void ServerConn::handleStartTls(const QDomElement &)
{
    if (srv->profile.tlsAnswer == 0) {
        send(QByteArray("<proceed xmlns='") + NS_TLS + "'/>");
        framer.reset();
    } else {
        send(QByteArray("<failure xmlns='") + NS_TLS + "'/>");
        closeStream(true);
    }
}

// ------------------------------------------------------------------ SASL (independent implementation)

static const char *scramAlg(const QString &mech)
{
    if (mech == QLatin1String("SCRAM-SHA-1")) {
        return "SHA1";
    }
    if (mech == QLatin1String("SCRAM-SHA-256")) {
        return "SHA256";
    }
    if (mech == QLatin1String("SCRAM-SHA-512")) {
        return "SHA512";
    }
    if (mech == QLatin1String("SCRAM-SHA3-512")) {
        return "SHA3-512";
    }
    return nullptr;
}

static QMap<char, QByteArray> parseAttrs(const QByteArray &s)
{
    QMap<char, QByteArray> m;
    for (const auto &kv : s.split(',')) {
        if (kv.size() >= 2 && kv[1] == '=') {
            m[kv[0]] = kv.mid(2);
        }
    }
    return m;
}

static QByteArray scramUnescape(QByteArray n, bool *ok)
{
    *ok = true;
    QByteArray o;
    for (int i = 0; i < n.size(); ++i) {
        if (n[i] == '=') {
            if (n.mid(i, 3) == "=2C") {
                o += ',';
                i += 2;
            } else if (n.mid(i, 3) == "=3D") {
                o += '=';
                i += 2;
            } else {
                *ok = false;
                o += n[i];
            }
        } else {
            o += n[i];
        }
    }
    return o;
}

// lenient RFC 2831 directive parser: token or quoted-string values
static QMap<QByteArray, QByteArray> parseDigest(const QByteArray &s)
{
    QMap<QByteArray, QByteArray> m;
    int i = 0;
    const int n = s.size();
    while (i < n) {
        while (i < n && (s[i] == ',' || s[i] == ' ')) {
            ++i;
        }
        int eq = s.indexOf('=', i);
        if (eq < 0) {
            break;
        }
        QByteArray key = s.mid(i, eq - i).trimmed();
        i = eq + 1;
        QByteArray val;
        if (i < n && s[i] == '"') {
            ++i;
            while (i < n && s[i] != '"') {
                if (s[i] == '\\' && i + 1 < n) {
                    ++i;
                }
                val += s[i++];
            }
            ++i;
        } else {
            int c = s.indexOf(',', i);
            if (c < 0) {
                c = n;
            }
            val = s.mid(i, c - i);
            i = c;
        }
        m[key] = val;
    }
    return m;
}

static QByteArray md5hex(const QByteArray &d) { return simcrypto::hash("MD5", d).toHex(); }

void ServerConn::saslChallenge(const QByteArray &data)
{
    if (saslIsV2) {
        send(QByteArray("<challenge xmlns='") + NS_SASL2 + "'>" + data.toBase64() + "</challenge>");
    } else {
        send(QByteArray("<challenge xmlns='") + NS_SASL + "'>" + (data.isEmpty() ? QByteArray("=") : data.toBase64()) + "</challenge>");
    }
}

void ServerConn::saslFailure(const char *condition)
{
    srv->say(QStringLiteral("server: SASL failure %1").arg(QLatin1String(condition)));
    if (saslIsV2) {
        send(QByteArray("<failure xmlns='") + NS_SASL2 + "'><" + condition + " xmlns='" + NS_SASL + "'/></failure>");
    } else {
        send(QByteArray("<failure xmlns='") + NS_SASL + "'><" + condition + "/></failure>");
    }
    mech.clear();
    saslStep = 0;
}

// a resource that is bound again replaces the old session of that full JID (RFC 6120 7.7.2.2), and with it
// the old session's stream-management state
static void dropSmSessionsOf(ScriptedServer *srv, const QString &fullJid, SmSession *except)
{
    for (auto it = srv->smSessions.begin(); it != srv->smSessions.end();) {
        SmSession *s = it.value();
        if (s != except && s->fullJid == fullJid && !s->attached) {
            for (auto *c : srv->conns) {
                if (c->sm == s) {
                    c->sm = nullptr;
                }
            }
            delete s;
            it = srv->smSessions.erase(it);
        } else {
            ++it;
        }
    }
}

QString ServerConn::newSmSession(bool resumeRequested)
{
    auto *s = new SmSession;
    s->id = QStringLiteral("sm%1").arg(++srv->smCounter);
    s->resumable = resumeRequested && srv->profile.sm == 2;
    s->fullJid = fullJid;
    s->attached = true;
    srv->smSessions[s->id] = s;
    sm = s;
    return s->id;
}

QByteArray ServerConn::smEnabledXml(SmSession *s)
{
    QByteArray x = QByteArray("<enabled xmlns='") + NS_SM + "' id='" + s->id.toUtf8() + "'";
    if (s->resumable) {
        x += " resume='true'";
        if (!srv->profile.smLocation.isEmpty()) {
            x += " location='" + srv->profile.smLocation.toUtf8() + "'";
        }
    }
    x += "/>";
    return x;
}

void ServerConn::saslSuccess(const QByteArray &additional)
{
    const auto &p = srv->profile;
    authenticated = true;
    srv->say(QStringLiteral("server: SASL success for '%1' via %2").arg(user, mech));
    if (!saslIsV2) {
        QByteArray x = QByteArray("<success xmlns='") + NS_SASL + "'>";
        if (!additional.isEmpty()) {
            x += additional.toBase64();
        }
        x += "</success>";
        send(x);
        framer.reset();
        return;
    }
    usedSasl2 = true;
    QByteArray x = QByteArray("<success xmlns='") + NS_SASL2 + "'>";
    if (!additional.isEmpty()) {
        x += "<additional-data>" + additional.toBase64() + "</additional-data>";
    }
    // inline requests of the <authenticate/>
    const QDomElement resume = child(pendingAuth, "resume", NS_SM);
    const QDomElement bindReq = child(pendingAuth, "bind", NS_BIND2);
    const QDomElement tokenReq = child(pendingAuth, "request-token", NS_FAST);
    bool resumed = false;
    QByteArray inner;
    if (!resume.isNull()) {
        const QString previd = attr(resume, "previd");
        SmSession *s = srv->smSessions.value(previd, nullptr);
        if (s && s->resumable && p.quirk("resume") != QLatin1String("refuse")) {
            sm = s;
            s->attached = true;
            fullJid = s->fullJid;
            unsigned h = attr(resume, "h").toUInt();
            while (s->outAcked < h && !s->outUnacked.isEmpty()) {
                s->outUnacked.removeFirst();
                s->outAcked++;
            }
            inner += QByteArray("<resumed xmlns='") + NS_SM + "' h='" + QByteArray::number(s->hIn) + "' previd='" + previd.toUtf8() + "'/>";
            resumed = true;
            resumedHere = true;
            bound = true;
        } else {
            if (s) {
                for (auto *c : srv->conns) {
                    if (c->sm == s) {
                        c->sm = nullptr;
                    }
                }
                srv->smSessions.remove(previd);
                delete s;
            }
            inner += QByteArray("<failed xmlns='") + NS_SM + "'><item-not-found xmlns='" + NS_STANZAS + "'/></failed>";
        }
    }
    QString authzid = user + QLatin1Char('@') + p.domain;
    if (!resumed && !bindReq.isNull() && p.bind2) {
        const QString tag = child(bindReq, "tag", NS_BIND2).text();
        fullJid = authzid + QLatin1Char('/') + (tag.isEmpty() ? QStringLiteral("r") : tag) + QStringLiteral(".%1").arg(srv->rng.uniform(10000));
        bound = true;
        inner += QByteArray("<bound xmlns='") + NS_BIND2 + "'>";
        const QDomElement en = child(bindReq, "enable", NS_SM);
        if (!en.isNull() && p.sm != 0) {
            if (p.quirk("enable") == QLatin1String("refuse")) {
                inner += QByteArray("<failed xmlns='") + NS_SM + "'><internal-server-error xmlns='" + NS_STANZAS + "'/></failed>";
            } else {
                const QString r = attr(en, "resume");
                newSmSession(r == QLatin1String("true") || r == QLatin1String("1"));
                inner += smEnabledXml(sm);
            }
        }
        inner += "</bound>";
        authzid = fullJid;
    }
    if (resumed) {
        authzid = fullJid;
    }
    x += "<authorization-identifier>" + esc(authzid).toUtf8() + "</authorization-identifier>" + inner;
    if (!tokenReq.isNull() && !p.fastMechs.isEmpty()) {
        const QString tok = QStringLiteral("fasttoken-%1-%2").arg(++srv->tokenCounter).arg(srv->rng.uniform(1000000));
        srv->fastTokens[tok] = user;
        srv->fastTokenMech = attr(tokenReq, "mechanism");
        x += QByteArray("<token xmlns='") + NS_FAST + "' expiry='2030-01-01T00:00:00Z' token='" + tok.toUtf8() + "'/>";
    }
    x += "</success>";
    send(x);
    if (resumed) {
        markReady();
        // resend what the client has not acknowledged
        for (const auto &st : std::as_const(sm->outUnacked)) {
            send(st);
        }
    } else {
        sendFeatures();
    }
}

void ServerConn::handleSaslStart(const QDomElement &el, bool v2)
{
    const auto &p = srv->profile;
    saslIsV2 = v2;
    mech = attr(el, "mechanism");
    saslStep = 1;
    serverProofDelivered = false;
    QByteArray initial;
    if (v2) {
        pendingAuthDoc = QDomDocument();
        pendingAuth = pendingAuthDoc.importNode(el, true).toElement();
        initial = QByteArray::fromBase64(child(el, "initial-response", NS_SASL2).text().toLatin1());
    } else {
        const QString t = el.text();
        initial = t == QLatin1String("=") ? QByteArray() : QByteArray::fromBase64(t.toLatin1());
    }
    srv->say(QStringLiteral("server: auth start mechanism=%1 v2=%2").arg(mech).arg(v2));
    const QStringList offered = v2 ? (p.sasl2 + p.fastMechs) : p.sasl1;
    if (!offered.contains(mech)) {
        saslFailure("invalid-mechanism");
        return;
    }
    const QString q = p.quirk("sasl");
    if (q.startsWith(QLatin1String("early_success"))) {
        // a server that cannot prove anything simply claims success - bare, or dressed up with data that anybody
        // can produce without the password (a well-formed server-first message, or something unparsable)
        const auto a = parseAttrs(initial.mid(3));
        user = mech.startsWith(QLatin1String("SCRAM")) ? QString::fromUtf8(a.value('n')) : QStringLiteral("someone");
        QByteArray data;
        if (q == QLatin1String("early_success_server_first")) {
            data = "r=" + a.value('r') + "XsrvNonceX,s=" + QByteArray("0123456789abcdef").toBase64() + ",i=" + QByteArray::number(p.scramIter > 0 ? p.scramIter : 4096);
        } else if (q == QLatin1String("early_success_garbage")) {
            data = "x=not-a-scram-message";
        }
        saslSuccess(data);
        return;
    }
    if (mech == QLatin1String("PLAIN")) {
        const auto parts = initial.split('\0');
        if (parts.size() != 3) {
            srv->conformance << QStringLiteral("PLAIN: message is not authzid NUL authcid NUL passwd");
            saslFailure("malformed-request");
            return;
        }
        user = QString::fromUtf8(parts[1]);
        if (srv->accounts.contains(user) && srv->accounts[user].toUtf8() == parts[2]) {
            saslSuccess({});
        } else {
            saslFailure("not-authorized");
        }
        return;
    }
    if (mech == QLatin1String("ANONYMOUS")) {
        user = QStringLiteral("anon%1").arg(srv->rng.uniform(1000));
        saslSuccess({});
        return;
    }
    if (mech.startsWith(QLatin1String("HT-"))) {
        // XEP-0484: authcid NUL HMAC(token, "Initiator" || cb-data)
        int z = initial.indexOf('\0');
        if (z < 0) {
            srv->conformance << QStringLiteral("HT: missing NUL separator");
            saslFailure("malformed-request");
            return;
        }
        user = QString::fromUtf8(initial.left(z));
        const QByteArray mac = initial.mid(z + 1);
        // HT-<HASH>-NONE
        QString hashName = mech.mid(3, mech.size() - 3 - 5);
        QByteArray alg = hashName.toLatin1();
        if (alg.startsWith("SHA-")) {
            alg = "SHA" + alg.mid(4);
        }
        bool ok = false;
        for (auto it = srv->fastTokens.begin(); it != srv->fastTokens.end(); ++it) {
            if (it.value() == user && simcrypto::hmac(alg.constData(), it.key().toUtf8(), "Initiator") == mac) {
                ok = true;
            }
        }
        if (ok) {
            saslSuccess(p.quirk("ht") == QLatin1String("no_responder") ? QByteArray() : QByteArray("responder-mac-not-modelled"));
        } else {
            if (p.quirk("account") != QLatin1String("other_password")) {
                srv->conformance << QStringLiteral("HT: token MAC does not verify under the token issued to user '%1'").arg(user);
            }
            saslFailure("not-authorized");
        }
        return;
    }
    if (const char *alg = scramAlg(mech)) {
        // client-first-message = gs2-header client-first-message-bare
        if (!(initial.startsWith("n,,") || initial.startsWith("y,,"))) {
            srv->conformance << QStringLiteral("SCRAM: client-first does not start with gs2 header n,, : ") + QString::fromUtf8(initial.left(40));
            saslFailure("malformed-request");
            return;
        }
        gs2 = initial.left(3);
        cFirstBare = initial.mid(3);
        // n= and r= must be the first two attributes, in that order
        if (!cFirstBare.startsWith("n=")) {
            srv->conformance << QStringLiteral("SCRAM: client-first-bare does not start with n=");
        }
        int rpos = cFirstBare.lastIndexOf(",r=");
        const QByteArray nRaw = rpos > 2 ? cFirstBare.mid(2, rpos - 2) : QByteArray();
        const QByteArray cnonce = rpos >= 0 ? cFirstBare.mid(rpos + 3) : QByteArray();
        bool escOk = true;
        const QByteArray name = scramUnescape(nRaw, &escOk);
        if (!escOk || nRaw.contains(',')) {
            srv->conformance << QStringLiteral("SCRAM: user name not escaped as =2C/=3D in client-first: ") + QString::fromUtf8(nRaw);
        }
        if (cnonce.isEmpty() || cnonce.contains(',')) {
            srv->conformance << QStringLiteral("SCRAM: bad client nonce");
        }
        user = QString::fromUtf8(name);
        // a server stores one salt per account: later logins of the same account meet the same salt and iteration count
        if (!srv->saltOf.contains(user)) {
            srv->saltOf[user] = srv->rng.bytes(std::max(1, p.saltLen));
        }
        salt = srv->saltOf[user];
        QByteArray snonce = srv->rng.bytes(12).toBase64();
        nonce = cnonce + snonce;
        QByteArray iter = QByteArray::number(p.scramIter);
        QByteArray r = nonce, s = salt.toBase64();
        const QString sq = p.quirk("scram");
        if (sq == QLatin1String("nonce_mismatch")) {
            r = snonce + cnonce;          // does not extend the client's nonce
        } else if (sq == QLatin1String("nonce_truncated")) {
            r = cnonce.left(cnonce.size() - 1) + snonce;
        } else if (sq == QLatin1String("iter0")) {
            iter = "0";
        } else if (sq == QLatin1String("iter_neg")) {
            iter = "-4096";
        } else if (sq == QLatin1String("iter_nan")) {
            iter = "many";
        } else if (sq == QLatin1String("iter_huge")) {
            // a count nobody can compute in the lifetime of a login (and one that does not fit a signed 32-bit integer)
            static const char *huge[] = { "2147483648", "3000000000", "4294967295", "4294967296" };
            iter = huge[srv->rng.uniform(4)];
        } else if (sq == QLatin1String("empty_salt")) {
            s = "";
        }
        sFirst = "r=" + r + ",s=" + s + ",i=" + iter;
        if (sq == QLatin1String("no_r")) {
            sFirst = "s=" + s + ",i=" + iter;
        } else if (sq == QLatin1String("no_s")) {
            sFirst = "r=" + r + ",i=" + iter;
        } else if (sq == QLatin1String("no_i")) {
            sFirst = "r=" + r + ",s=" + s;
        }
        // RFC 5802 section 7: server-first-message = [reserved-mext ","] nonce "," salt "," iteration-count ["," extensions];
        // a client ignores extensions it does not know, but they are part of the AuthMessage both sides sign
        for (int i = 0; i < p.scramExt; ++i) {
            static const char *ext[] = { ",x=optional", ",y=b64/+A=", ",z=1" };
            sFirst += ext[i % 3];
        }
        Q_UNUSED(alg);
        saslStep = 2;
        saslChallenge(sFirst);
        return;
    }
    if (mech == QLatin1String("DIGEST-MD5")) {
        if (!initial.isEmpty()) {
            srv->conformance << QStringLiteral("DIGEST-MD5: initial response must be empty");
        }
        digestNonce = srv->rng.bytes(12).toBase64();
        QByteArray ch = "realm=\"" + p.domain.toUtf8() + "\",nonce=\"" + digestNonce + "\",qop=\"auth\",charset=utf-8,algorithm=md5-sess";
        const QString dq = p.quirk("digest");
        if (dq == QLatin1String("no_nonce")) {
            ch = "realm=\"" + p.domain.toUtf8() + "\",qop=\"auth\",charset=utf-8,algorithm=md5-sess";
        } else if (dq == QLatin1String("qop_noauth")) {
            ch = "realm=\"" + p.domain.toUtf8() + "\",nonce=\"" + digestNonce + "\",qop=\"auth-int,auth-conf\",charset=utf-8,algorithm=md5-sess";
        }
        saslStep = 2;
        saslChallenge(ch);
        return;
    }
    saslFailure("invalid-mechanism");
}

void ServerConn::handleSaslResponse(const QDomElement &el, bool v2)
{
    const auto &p = srv->profile;
    if (mech.isEmpty()) {
        srv->say(QStringLiteral("server: SASL response without exchange"));
        saslFailure("malformed-request");
        return;
    }
    const QString t = el.text();
    const QByteArray data = (t == QLatin1String("=")) ? QByteArray() : QByteArray::fromBase64(t.toLatin1());
    Q_UNUSED(v2);
    if (const char *alg = scramAlg(mech)) {
        if (saslStep == 2) {
            // client-final-message = channel-binding "," nonce "," proof
            int ppos = data.lastIndexOf(",p=");
            const QByteArray withoutProof = ppos >= 0 ? data.left(ppos) : data;
            const QByteArray proof = ppos >= 0 ? QByteArray::fromBase64(data.mid(ppos + 3)) : QByteArray();
            const auto a = parseAttrs(withoutProof);
            if (!withoutProof.startsWith("c=")) {
                srv->conformance << QStringLiteral("SCRAM: client-final does not start with c=");
            }
            if (QByteArray::fromBase64(a.value('c')) != gs2) {
                srv->conformance << QStringLiteral("SCRAM: c= is not base64(gs2-header)");
            }
            const QString sq = p.quirk("scram");
            const bool tampered = sq.startsWith(QLatin1String("nonce_")) || sq.startsWith(QLatin1String("iter")) || sq.startsWith(QLatin1String("no_")) || sq == QLatin1String("empty_salt");
            if (sq == QLatin1String("iter_huge")) {
                // the client answered although it cannot possibly have derived the key: a server that does NOT know the
                // password tries the salted passwords an implementation slip could have produced (no key, zero key)
                const int hl = simcrypto::digestLen(alg);
                const QByteArray authMessage = cFirstBare + "," + sFirst + "," + withoutProof;
                for (const QByteArray &degenerate : { QByteArray(), QByteArray(hl, '\0') }) {
                    const QByteArray ck = simcrypto::hmac(alg, degenerate, "Client Key");
                    const QByteArray sk = simcrypto::hash(alg, ck);
                    const QByteArray sg = simcrypto::hmac(alg, sk, authMessage);
                    QByteArray ex(ck);
                    for (int i = 0; i < ex.size(); ++i) {
                        ex[i] = ex[i] ^ sg[i];
                    }
                    if (ex == proof) {
                        srv->conformance << QStringLiteral("SCRAM: client proof does not depend on the password (degenerate salted password)");
                        const QByteArray v = "v=" + simcrypto::hmac(alg, simcrypto::hmac(alg, degenerate, "Server Key"), authMessage).toBase64();
                        // no knowledge of the password was proved by this signature
                        serverProofDelivered = false;
                        if (saslIsV2 || p.scramFinalInSuccess) {
                            saslSuccess(v);
                        } else {
                            saslStep = 3;
                            saslChallenge(v);
                        }
                        return;
                    }
                }
                srv->say(QStringLiteral("server: client answered a server-first with an uncomputable iteration count"));
                saslFailure("not-authorized");
                return;
            }
            if (tampered) {
                // the client must not have answered a server-first it has to reject
                srv->say(QStringLiteral("server: client answered an invalid server-first (%1)").arg(sq));
                saslFailure("not-authorized");
                return;
            }
            if (a.value('r') != nonce) {
                srv->conformance << QStringLiteral("SCRAM: r= in client-final is not the full nonce");
            }
            const int dk = simcrypto::digestLen(alg);
            const QByteArray pw = srv->accounts.value(user).toUtf8();
            const QByteArray salted = simcrypto::pbkdf2(alg, pw, salt, p.scramIter, dk);
            const QByteArray clientKey = simcrypto::hmac(alg, salted, "Client Key");
            const QByteArray storedKey = simcrypto::hash(alg, clientKey);
            const QByteArray authMessage = cFirstBare + "," + sFirst + "," + withoutProof;
            const QByteArray sig = simcrypto::hmac(alg, storedKey, authMessage);
            QByteArray expect(clientKey);
            for (int i = 0; i < expect.size(); ++i) {
                expect[i] = expect[i] ^ sig[i];
            }
            const QByteArray serverKey = simcrypto::hmac(alg, salted, "Server Key");
            expectedServerSig = simcrypto::hmac(alg, serverKey, authMessage);
            if (!srv->accounts.contains(user)) {
                saslFailure("not-authorized");
                return;
            }
            if (proof != expect) {
                if (p.quirk("account") != QLatin1String("other_password")) {
                    srv->conformance << QStringLiteral("SCRAM: client proof differs from the RFC 5802 value for user '%1' (%2)").arg(user, mech);
                }
                saslFailure("not-authorized");
                return;
            }
            if (p.quirk("account") == QLatin1String("other_password")) {
                srv->conformance << QStringLiteral("SCRAM: proof verified although the server holds a different secret");
            }
            QByteArray v = "v=" + expectedServerSig.toBase64();
            if (sq == QLatin1String("wrong_v")) {
                QByteArray bad = expectedServerSig;
                bad[bad.size() - 1] = bad[bad.size() - 1] ^ 0x01;
                v = "v=" + bad.toBase64();
            } else if (sq == QLatin1String("wrong_v_prefix_ok")) {
                QByteArray bad = expectedServerSig.left(8) + QByteArray(expectedServerSig.size() - 8, 'x');
                v = "v=" + bad.toBase64();
            } else if (sq == QLatin1String("error_e")) {
                v = "e=invalid-proof";
            }
            const bool honestV = (v == "v=" + expectedServerSig.toBase64());
            if (sq == QLatin1String("success_no_v")) {
                saslSuccess({});
                return;
            }
            if (sq == QLatin1String("success_server_first_again")) {
                // instead of its signature the server repeats a (well-formed) server-first message
                saslSuccess(sFirst);
                return;
            }
            if (saslIsV2 || p.scramFinalInSuccess) {
                serverProofDelivered = honestV;
                saslSuccess(v);
                return;
            }
            saslStep = 3;
            serverProofDelivered = honestV;
            saslChallenge(v);
            return;
        }
        if (saslStep == 3) {
            if (!data.isEmpty()) {
                srv->conformance << QStringLiteral("SCRAM: response to server-final must be empty");
            }
            if (p.quirk("scram") == QLatin1String("extra_challenge")) {
                saslStep = 4;
                saslChallenge("x=unexpected");
                return;
            }
            saslSuccess({});
            return;
        }
        if (saslStep == 4) {
            srv->say(QStringLiteral("server: client answered an extra challenge after completion"));
            saslSuccess({});
            return;
        }
    }
    if (mech == QLatin1String("DIGEST-MD5")) {
        if (saslStep == 2) {
            const auto m = parseDigest(data);
            const QString dq = p.quirk("digest");
            if (dq == QLatin1String("no_nonce") || dq == QLatin1String("qop_noauth")) {
                srv->say(QStringLiteral("server: client answered an invalid DIGEST-MD5 challenge (%1)").arg(dq));
                saslFailure("not-authorized");
                return;
            }
            user = QString::fromUtf8(m.value("username"));
            const QByteArray realm = m.value("realm");
            const QByteArray cnonce = m.value("cnonce");
            const QByteArray nc = m.value("nc");
            const QByteArray uri = m.value("digest-uri");
            if (m.value("nonce") != digestNonce) {
                srv->conformance << QStringLiteral("DIGEST-MD5: nonce not echoed");
            }
            if (nc != "00000001") {
                srv->conformance << QStringLiteral("DIGEST-MD5: nc is not 00000001");
            }
            if (uri != "xmpp/" + p.domain.toUtf8()) {
                srv->conformance << QStringLiteral("DIGEST-MD5: digest-uri is not xmpp/<domain>: ") + QString::fromUtf8(uri);
            }
            if (m.value("qop", "auth") != "auth") {
                srv->conformance << QStringLiteral("DIGEST-MD5: qop is not auth");
            }
            const QByteArray pw = srv->accounts.value(user).toUtf8();
            const QByteArray a1 = simcrypto::hash("MD5", user.toUtf8() + ":" + realm + ":" + pw) + ":" + digestNonce + ":" + cnonce;
            const QByteArray ha1 = md5hex(a1);
            const QByteArray expect = md5hex(ha1 + ":" + digestNonce + ":" + nc + ":" + cnonce + ":auth:" + md5hex("AUTHENTICATE:" + uri));
            if (!srv->accounts.contains(user)) {
                saslFailure("not-authorized");
                return;
            }
            if (m.value("response") != expect) {
                if (p.quirk("account") != QLatin1String("other_password")) {
                    srv->conformance << QStringLiteral("DIGEST-MD5: response differs from the RFC 2831 value for user '%1'").arg(user);
                }
                saslFailure("not-authorized");
                return;
            }
            if (p.quirk("account") == QLatin1String("other_password")) {
                srv->conformance << QStringLiteral("DIGEST-MD5: response verified although the server holds a different secret");
            }
            QByteArray rsp = md5hex(ha1 + ":" + digestNonce + ":" + nc + ":" + cnonce + ":auth:" + md5hex(":" + uri));
            if (dq == QLatin1String("rspauth_wrong")) {
                rsp[0] = rsp[0] == 'a' ? 'b' : 'a';
            }
            saslStep = 3;
            if (dq == QLatin1String("rspauth_missing")) {
                saslChallenge("foo=bar");
            } else {
                serverProofDelivered = dq != QLatin1String("rspauth_wrong");
                saslChallenge("rspauth=" + rsp);
            }
            return;
        }
        if (saslStep == 3) {
            saslSuccess({});
            return;
        }
    }
    saslFailure("malformed-request");
}

// ------------------------------------------------------------------ stream management nonzas

void ServerConn::handleSmNonza(const QDomElement &el)
{
    const auto &p = srv->profile;
    const QString tag = el.tagName();
    if (tag == QLatin1String("enable")) {
        if (p.sm == 0 || !bound || p.quirk("enable") == QLatin1String("refuse")) {
            send(QByteArray("<failed xmlns='") + NS_SM + "'><feature-not-implemented xmlns='" + NS_STANZAS + "'/></failed>");
        } else {
            const QString r = attr(el, "resume");
            newSmSession(r == QLatin1String("true") || r == QLatin1String("1"));
            send(smEnabledXml(sm));
        }
        markReady();
    } else if (tag == QLatin1String("resume")) {
        const QString previd = attr(el, "previd");
        SmSession *s = srv->smSessions.value(previd, nullptr);
        if (s && s->resumable && p.quirk("resume") != QLatin1String("refuse")) {
            sm = s;
            s->attached = true;
            fullJid = s->fullJid;
            user = fullJid.section(QLatin1Char('@'), 0, 0);
            bound = true;
            unsigned h = attr(el, "h").toUInt();
            while (s->outAcked < h && !s->outUnacked.isEmpty()) {
                s->outUnacked.removeFirst();
                s->outAcked++;
            }
            unsigned hOut = s->hIn;
            const QString rq = p.quirk("resumed_h");
            if (rq == QLatin1String("zero")) {
                hOut = 0;
            } else if (rq == QLatin1String("beyond")) {
                hOut = s->hIn + 5;
            }
            send(QByteArray("<resumed xmlns='") + NS_SM + "' h='" + QByteArray::number(hOut) + "' previd='" + previd.toUtf8() + "'/>");
            resumedHere = true;
            markReady();
            for (const auto &st : std::as_const(s->outUnacked)) {
                send(st);
            }
        } else {
            // item-not-found: the server does not (any longer) know that session, so it can never be resumed later either
            if (s) {
                for (auto *c : srv->conns) {
                    if (c->sm == s) {
                        c->sm = nullptr;
                    }
                }
                srv->smSessions.remove(previd);
                delete s;
            }
            send(QByteArray("<failed xmlns='") + NS_SM + "'><item-not-found xmlns='" + NS_STANZAS + "'/></failed>");
            // a stream that is already bound (bind2) is usable from here on whether or not the client enables
            // stream management afterwards
            if (bound) {
                markReady();
            }
        }
    } else if (tag == QLatin1String("r")) {
        if (sm && p.autoAck) {
            send(QByteArray("<a xmlns='") + NS_SM + "' h='" + QByteArray::number(sm->hIn) + "'/>");
        }
    } else if (tag == QLatin1String("a")) {
        if (sm) {
            unsigned h = attr(el, "h").toUInt();
            while (sm->outAcked < h && !sm->outUnacked.isEmpty()) {
                sm->outUnacked.removeFirst();
                sm->outAcked++;
            }
        }
    }
}

// ------------------------------------------------------------------ IQs the server itself answers

void ServerConn::handleIq(const QDomElement &el, const QByteArray &)
{
    const auto &p = srv->profile;
    const QString id = attr(el, "id");
    const QString type = attr(el, "type");
    const QDomElement payload = firstChild(el);
    const QString pns = payload.namespaceURI();
    const QByteArray idq = esc(id).toUtf8();
    if (pns == QLatin1String(NS_IQAUTH)) {
        // XEP-0078
        if (type == QLatin1String("get")) {
            QByteArray x = "<iq type='result' id='" + idq + "'><query xmlns='jabber:iq:auth'><username/>";
            if (p.legacyPlain) {
                x += "<password/>";
            }
            if (p.legacyDigest) {
                x += "<digest/>";
            }
            x += "<resource/></query></iq>";
            send(x);
        } else if (type == QLatin1String("set")) {
            const QString u = child(payload, "username").text();
            const QString pw = child(payload, "password").text();
            const QString dg = child(payload, "digest").text();
            const QString res = child(payload, "resource").text();
            bool ok = false;
            if (srv->accounts.contains(u)) {
                if (!pw.isEmpty()) {
                    ok = pw == srv->accounts[u];
                } else if (!dg.isEmpty()) {
                    ok = dg.toLatin1() == simcrypto::hash("SHA1", streamId.toUtf8() + srv->accounts[u].toUtf8()).toHex();
                }
            }
            if (ok) {
                authenticated = true;
                bound = true;
                user = u;
                fullJid = u + QLatin1Char('@') + p.domain + QLatin1Char('/') + res;
                send("<iq type='result' id='" + idq + "'/>");
                markReady();
            } else {
                send("<iq type='error' id='" + idq + "'><error type='auth'><not-authorized xmlns='" + QByteArray(NS_STANZAS) + "'/></error></iq>");
            }
        }
        return;
    }
    if (pns == QLatin1String(NS_BIND) && type == QLatin1String("set")) {
        if (!authenticated) {
            send("<iq type='error' id='" + idq + "'><error type='auth'><not-authorized xmlns='" + QByteArray(NS_STANZAS) + "'/></error></iq>");
            return;
        }
        QString res = child(payload, "resource").text();
        if (res.isEmpty()) {
            res = QStringLiteral("gen%1").arg(srv->rng.uniform(100000));
        }
        QString local = user;
        if (p.assignOtherJid) {
            local = user + QStringLiteral("-assigned");
            res = res + QStringLiteral("-srv");
        }
        fullJid = local + QLatin1Char('@') + p.domain + QLatin1Char('/') + res;
        bound = true;
        dropSmSessionsOf(srv, fullJid, nullptr);
        const QString bq = p.quirk("bind");
        if (bq == QLatin1String("conflict")) {
            send("<iq type='error' id='" + idq + "'><error type='cancel'><conflict xmlns='" + QByteArray(NS_STANZAS) + "'/></error></iq>");
            bound = false;
            return;
        }
        send("<iq type='result' id='" + idq + "'><bind xmlns='" + QByteArray(NS_BIND) + "'><jid>" + esc(fullJid).toUtf8() + "</jid></bind></iq>");
        if (p.sm == 0) {
            markReady();
        }
        return;
    }
    if (pns == QLatin1String(NS_SESSION) && type == QLatin1String("set")) {
        sendStanza("<iq type='result' id='" + idq + "'/>");
        return;
    }
    if (!sessionReady) {
        return;
    }
    const QString to = attr(el, "to");
    const QString bare = fullJid.section(QLatin1Char('/'), 0, 0);
    if (pns == QLatin1String("jabber:iq:roster") && type == QLatin1String("get") && p.autoRoster) {
        QByteArray x = "<iq type='result' id='" + idq + "' to='" + esc(fullJid).toUtf8() + "'><query xmlns='jabber:iq:roster'>";
        for (const auto &it : std::as_const(srv->rosterItems)) {
            x += it.toUtf8();
        }
        x += "</query></iq>";
        sendStanza(x);
        return;
    }
    if (pns == QLatin1String("urn:xmpp:ping") && type == QLatin1String("get") && (to.isEmpty() || to == p.domain)) {
        sendStanza("<iq type='result' id='" + idq + "' from='" + p.domain.toUtf8() + "' to='" + esc(fullJid).toUtf8() + "'/>");
        return;
    }
    if ((type == QLatin1String("get") || type == QLatin1String("set")) && (to.isEmpty() || to == p.domain || to == bare) && p.quirk("iq") != QLatin1String("silent")) {
        QByteArray from = to.isEmpty() ? QByteArray() : " from='" + esc(to).toUtf8() + "'";
        sendStanza("<iq type='error' id='" + idq + "'" + from + " to='" + esc(fullJid).toUtf8() + "'><error type='cancel'><service-unavailable xmlns='" + QByteArray(NS_STANZAS) + "'/></error></iq>");
    }
}

}  // namespace sim
