// Small XML helpers for the simulated peers. They write XML as literal text and read it with QDomDocument plus
// their own extractors; none of QXmpp's codecs is used on the peer side.
#pragma once
#include <QByteArray>
#include <QDomDocument>
#include <QDomElement>
#include <QList>
#include <QString>

namespace simxml {

struct Item {
    enum Kind { Header, Element, Close, Whitespace } kind;
    QByteArray text;
};

// incremental framing of an XMPP byte stream into header / top-level elements / close tag
class Framer
{
public:
    void feed(const QByteArray &b) { buf += b; }
    QList<Item> take();
    void reset() { buf.clear(); }
    int pending() const { return buf.size(); }

private:
    QByteArray buf;
};

// parse one top-level element (as found inside a jabber:client stream) with namespace processing
QDomElement parse(const QByteArray &elementText, QDomDocument &holder, const char *defaultNs = "jabber:client");
QString esc(const QString &s);
QString attr(const QDomElement &e, const char *name);
// first child element with the given tag (and namespace if non-null)
QDomElement child(const QDomElement &e, const char *tag, const char *ns = nullptr);
QDomElement firstChild(const QDomElement &e);
QString header(const QByteArray &headerText, const char *attrName);   // attribute of a <stream:stream ...> header

}  // namespace simxml
