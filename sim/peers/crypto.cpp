#include "crypto.h"

#include <openssl/evp.h>
#include <openssl/hmac.h>

namespace simcrypto {

static const EVP_MD *md(const char *alg) { return EVP_get_digestbyname(alg); }

int digestLen(const char *alg)
{
    const EVP_MD *m = md(alg);
    return m ? EVP_MD_get_size(m) : 0;
}

QByteArray hash(const char *alg, const QByteArray &data)
{
    const EVP_MD *m = md(alg);
    if (!m) {
        return {};
    }
    unsigned char out[EVP_MAX_MD_SIZE];
    unsigned int len = 0;
    EVP_Digest(data.constData(), (size_t)data.size(), out, &len, m, nullptr);
    return QByteArray((const char *)out, (int)len);
}

QByteArray hmac(const char *alg, const QByteArray &key, const QByteArray &data)
{
    const EVP_MD *m = md(alg);
    if (!m) {
        return {};
    }
    unsigned char out[EVP_MAX_MD_SIZE];
    unsigned int len = 0;
    static const char dummy = 0;
    HMAC(m, key.isEmpty() ? &dummy : key.constData(), key.size(), (const unsigned char *)data.constData(), (size_t)data.size(), out, &len);
    return QByteArray((const char *)out, (int)len);
}

QByteArray pbkdf2(const char *alg, const QByteArray &password, const QByteArray &salt, int iterations, int dklen)
{
    const EVP_MD *m = md(alg);
    if (!m) {
        return {};
    }
    QByteArray out(dklen, 0);
    PKCS5_PBKDF2_HMAC(password.constData(), password.size(), (const unsigned char *)salt.constData(), salt.size(), iterations, m, dklen, (unsigned char *)out.data());
    return out;
}

}  // namespace simcrypto
