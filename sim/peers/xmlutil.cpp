#include "xmlutil.h"

#include <QRegularExpression>

namespace simxml {

QList<Item> Framer::take()
{
    QList<Item> out;
    for (;;) {
        // skip / report leading whitespace
        int i = 0;
        while (i < buf.size() && (buf[i] == ' ' || buf[i] == '\n' || buf[i] == '\r' || buf[i] == '\t')) {
            ++i;
        }
        if (i > 0) {
            out.append(Item { Item::Whitespace, buf.left(i) });
            buf.remove(0, i);
        }
        if (buf.isEmpty()) {
            return out;
        }
        if (buf[0] != '<') {
            // garbage: consume up to next '<'
            int j = buf.indexOf('<');
            if (j < 0) {
                buf.clear();
                return out;
            }
            buf.remove(0, j);
            continue;
        }
        if (buf.startsWith("<?")) {
            int e = buf.indexOf("?>");
            if (e < 0) {
                return out;
            }
            // the declaration belongs to the header that follows
            int h = buf.indexOf("<stream:stream", e);
            if (h < 0) {
                return out;
            }
            int g = buf.indexOf('>', h);
            if (g < 0) {
                return out;
            }
            out.append(Item { Item::Header, buf.left(g + 1) });
            buf.remove(0, g + 1);
            continue;
        }
        if (buf.startsWith("<stream:stream")) {
            int g = buf.indexOf('>');
            if (g < 0) {
                return out;
            }
            out.append(Item { Item::Header, buf.left(g + 1) });
            buf.remove(0, g + 1);
            continue;
        }
        if (buf.startsWith("</stream:stream>")) {
            out.append(Item { Item::Close, buf.left(16) });
            buf.remove(0, 16);
            continue;
        }
        if (QByteArray("</stream:stream>").startsWith(buf)) {
            return out;   // partial close tag
        }
        // a complete element: track depth
        int depth = 0;
        int p = 0;
        bool complete = false;
        const int n = buf.size();
        while (p < n) {
            if (buf[p] != '<') {
                ++p;
                continue;
            }
            if (buf.mid(p, 4) == "<!--") {
                int e = buf.indexOf("-->", p);
                if (e < 0) {
                    break;
                }
                p = e + 3;
                continue;
            }
            if (buf.mid(p, 9) == "<![CDATA[") {
                int e = buf.indexOf("]]>", p);
                if (e < 0) {
                    break;
                }
                p = e + 3;
                continue;
            }
            int j = p + 1;
            char quote = 0;
            bool closing = j < n && buf[j] == '/';
            bool ended = false;
            while (j < n) {
                char c = buf[j];
                if (quote) {
                    if (c == quote) {
                        quote = 0;
                    }
                } else if (c == '"' || c == '\'') {
                    quote = c;
                } else if (c == '>') {
                    ended = true;
                    break;
                }
                ++j;
            }
            if (!ended) {
                break;
            }
            bool selfClose = buf[j - 1] == '/';
            if (closing) {
                --depth;
            } else if (!selfClose) {
                ++depth;
            }
            p = j + 1;
            if (depth == 0) {
                complete = true;
                break;
            }
        }
        if (!complete) {
            return out;
        }
        out.append(Item { Item::Element, buf.left(p) });
        buf.remove(0, p);
    }
}

QDomElement parse(const QByteArray &elementText, QDomDocument &holder, const char *defaultNs)
{
    QByteArray wrapped = "<stream:stream xmlns='" + QByteArray(defaultNs) + "' xmlns:stream='http://etherx.jabber.org/streams'>" + elementText + "</stream:stream>";
    if (!holder.setContent(wrapped, true)) {
        return {};
    }
    return holder.documentElement().firstChildElement();
}

QString esc(const QString &s)
{
    QString o;
    o.reserve(s.size() + 8);
    for (QChar c : s) {
        switch (c.unicode()) {
        case '<':
            o += QLatin1String("&lt;");
            break;
        case '>':
            o += QLatin1String("&gt;");
            break;
        case '&':
            o += QLatin1String("&amp;");
            break;
        case '"':
            o += QLatin1String("&quot;");
            break;
        case '\'':
            o += QLatin1String("&apos;");
            break;
        default:
            o += c;
        }
    }
    return o;
}

QString attr(const QDomElement &e, const char *name) { return e.attribute(QString::fromLatin1(name)); }

QDomElement child(const QDomElement &e, const char *tag, const char *ns)
{
    for (auto c = e.firstChildElement(); !c.isNull(); c = c.nextSiblingElement()) {
        if (c.tagName() == QLatin1String(tag) && (!ns || c.namespaceURI() == QLatin1String(ns))) {
            return c;
        }
    }
    return {};
}

QDomElement firstChild(const QDomElement &e) { return e.firstChildElement(); }

QString header(const QByteArray &headerText, const char *attrName)
{
    QRegularExpression re(QStringLiteral("\\s") + QLatin1String(attrName) + QStringLiteral("\\s*=\\s*(['\"])(.*?)\\1"));
    auto m = re.match(QString::fromUtf8(headerText));
    return m.hasMatch() ? m.captured(2) : QString();
}

}  // namespace simxml
