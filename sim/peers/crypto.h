// Independent crypto for the simulated peers: OpenSSL libcrypto, never Qt's or QXmpp's implementations.
#pragma once
#include <QByteArray>

namespace simcrypto {
// alg: "SHA1", "SHA256", "SHA512", "SHA3-512", "MD5", ...
QByteArray hash(const char *alg, const QByteArray &data);
QByteArray hmac(const char *alg, const QByteArray &key, const QByteArray &data);
QByteArray pbkdf2(const char *alg, const QByteArray &password, const QByteArray &salt, int iterations, int dklen);
int digestLen(const char *alg);
}  // namespace simcrypto
