// Simulated TCP for the library's own QTcpSocket subclass (QXmppSocksClient, the SOCKS5 client of file transfers).
// The object is created inside the library, so it cannot be replaced by a subclass; instead the QAbstractSocket entry
// points it reaches are defined in the executable (simtcp.cpp): the class's vtable is emitted in the statically linked
// QXmpp objects and therefore binds to these definitions. Sockets that are not registered here fall through to Qt.
#pragma once
#include <QByteArray>
#include <QList>
#include <QPointer>
#include <QString>
#include <functional>

class QAbstractSocket;

namespace sim {

struct TcpConn {
    QPointer<QAbstractSocket> sock;
    QString host;
    quint16 port = 0;
    bool connectPending = false;
    bool up = false;
    QByteArray inbox;        // delivered to the socket, not yet read by the library
    QByteArray written;      // everything the library wrote, in order
    int writes = 0;
    QByteArray outbox;       // buffered mode: written by the library, not yet taken by the network (bytesToWrite())
    bool localClosed = false;
};

class TcpNet
{
public:
    TcpNet();
    ~TcpNet();
    static TcpNet *instance();
    QList<TcpConn *> conns;
    std::function<void(TcpConn *)> onConnectRequested;
    std::function<void(TcpConn *, const QByteArray &)> onWrite;
    // buffered mode (topology 4 of C19): writes stay in the connection's outbox until the world drains them; the bytes
    // then reach onWire and the socket emits bytesWritten(). flush() and a local close push the whole outbox to the wire.
    bool buffered = false;
    std::function<void(TcpConn *, const QByteArray &)> onWire;
    std::function<void(TcpConn *)> onLocalClose;
    void drain(TcpConn *c, int maxBytes, bool announce = true);

    TcpConn *find(const QAbstractSocket *s);
    void resolveConnect(TcpConn *c, bool ok);   // outcome of connectToHost
    void deliver(TcpConn *c, const QByteArray &bytes);
    void remoteClose(TcpConn *c);
};

}  // namespace sim
