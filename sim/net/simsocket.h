// SimSslSocket: a QSslSocket that never touches the kernel. SimLink: an ordered, faulty, observable byte pipe.
#pragma once
#include "core/simcore.h"

#include <QPointer>
#include <QSslSocket>
#include <functional>

namespace sim {

class SimLink;

// one end of a link (a SimSslSocket, or a scripted peer)
class LinkEnd
{
public:
    virtual ~LinkEnd() = default;
    virtual void linkDeliver(const QByteArray &) = 0;
    virtual void linkPeerClosed() = 0;               // orderly FIN from the other side
    virtual void linkAborted(int socketError) = 0;   // abortive loss of the connection
};

struct WireRecord {
    int dir;          // 0: end0 -> end1 (client -> server), 1: reverse
    bool encrypted;   // link's encrypted flag at the time the bytes were written
    QByteArray data;
    qint64 at;
};

class SimLink
{
public:
    struct Seg {
        QByteArray data;
        bool fin = false;
    };
    LinkEnd *end[2] = { nullptr, nullptr };
    QList<Seg> q[2];               // q[d]: bytes written by end[d], not yet delivered to end[1-d]
    bool up = false;               // TCP established
    bool closed[2] = { false, false };
    bool dead = false;             // aborted
    bool stalled = false;          // half-open: bytes vanish silently
    bool encrypted = false;
    QVector<WireRecord> wire;      // everything ever written (the eavesdropper's view)
    QMap<QString, int> *faults = nullptr;
    // observation hooks for oracles (called synchronously; must not touch the link)
    std::function<void(int from, const QByteArray &)> onWrite;       // every write, at the moment it happens
    std::function<void(int dir, const QByteArray &)> onDeliver;      // right before bytes are handed to the receiving end

    void write(int from, const QByteArray &data);
    bool pending(int dir) const { return !q[dir].isEmpty(); }
    int pendingBytes(int dir) const;
    // deliver the first `nbytes` bytes written by end[dir] (splitting/coalescing segments as needed);
    // nbytes <= 0 means "the whole first segment"
    void deliver(int dir, int nbytes = 0);
    void deliverAll(int dir);
    void closeFrom(int from);      // orderly close initiated by end[from]
    void cut(int errForEnd0, int errForEnd1);   // abortive: in-flight data lost in both directions
    void note(const char *fault)
    {
        if (faults) {
            (*faults)[QString::fromLatin1(fault)]++;
        }
    }
};

class SimSslSocket : public QSslSocket, public LinkEnd
{
    Q_OBJECT
public:
    explicit SimSslSocket(QObject *parent = nullptr);
    ~SimSslSocket() override;

    // --- world-facing API ---
    std::function<void(SimSslSocket *, const QString &host, quint16 port, bool directTls)> onConnectRequested;
    std::function<void(SimSslSocket *)> onStartClientTls;
    std::function<void(SimSslSocket *)> onLocalClose;
    SimLink *link = nullptr;
    int side = 0;
    bool simEncrypted = false;
    bool directTls = false;
    bool directTlsRequested = false;   // set by the connectToHostEncrypted() seam
    bool deferDisconnect = false;   // buggify: disconnectFromHost() completes one step later
    bool closePending = false;

    void attach(SimLink *l, int side_);             // used for server-side sockets: already connected
    void completeConnect();                         // outcome of connectToHost: success
    void failConnect(QAbstractSocket::SocketError); // outcome: refused / unreachable / timeout
    void completeTls(bool ok);
    void finishDeferredClose();

    // LinkEnd
    void linkDeliver(const QByteArray &) override;
    void linkPeerClosed() override;
    void linkAborted(int socketError) override;

    // --- QSslSocket / QIODevice virtuals ---
    void connectToHost(const QString &hostName, quint16 port, OpenMode openMode = ReadWrite, NetworkLayerProtocol protocol = AnyIPProtocol) override;
    void disconnectFromHost() override;
    void close() override;
    qint64 bytesAvailable() const override;
    qint64 bytesToWrite() const override { return 0; }
    bool canReadLine() const override { return m_in.contains('\n'); }
    bool atEnd() const override { return m_in.isEmpty(); }
    bool isSequential() const override { return true; }
    bool waitForReadyRead(int) override { return false; }
    bool waitForBytesWritten(int) override { return true; }
    bool waitForConnected(int) override { return state() == ConnectedState; }
    bool waitForDisconnected(int) override { return state() == UnconnectedState; }

protected:
    qint64 readData(char *data, qint64 maxlen) override;
    qint64 writeData(const char *data, qint64 len) override;

private:
    void toState(SocketState s);
    void goUnconnected();
    QByteArray m_in;
};

}  // namespace sim
