#include "simtcp.h"

#include "QXmppSocks.h"

#include <QAbstractSocket>
#include <dlfcn.h>

namespace sim {

static TcpNet *g_tcp = nullptr;

TcpNet::TcpNet() { g_tcp = this; }
TcpNet::~TcpNet()
{
    if (g_tcp == this) {
        g_tcp = nullptr;
    }
    qDeleteAll(conns);
}
TcpNet *TcpNet::instance() { return g_tcp; }

TcpConn *TcpNet::find(const QAbstractSocket *s)
{
    for (auto *c : std::as_const(conns)) {
        if (c->sock == s) {
            return c;
        }
    }
    return nullptr;
}

}  // namespace sim

// ---------------------------------------------------------------------------------------------------------
// helper with access to the protected state setters of QAbstractSocket: the seams below are member functions of
// QAbstractSocket, so they may call them directly

using sim::TcpConn;
using sim::TcpNet;

namespace {
template<typename Fn>
Fn realSymbol(const char *mangled)
{
    return reinterpret_cast<Fn>(dlsym(RTLD_NEXT, mangled));
}
bool isSimulated(const QAbstractSocket *s)
{
    return TcpNet::instance() && qobject_cast<const QXmppSocksClient *>(s);
}
}  // namespace

void QAbstractSocket::connectToHost(const QString &hostName, quint16 port, OpenMode mode, NetworkLayerProtocol protocol)
{
    if (!isSimulated(this)) {
        using Fn = void (*)(QAbstractSocket *, const QString &, quint16, int, int);
        static Fn real = realSymbol<Fn>("_ZN15QAbstractSocket13connectToHostERK7QStringt6QFlagsIN9QIODevice12OpenModeFlagEENS_20NetworkLayerProtocolE");
        real(this, hostName, port, (int)mode, (int)protocol);
        return;
    }
    auto *n = TcpNet::instance();
    auto *c = n->find(this);
    if (!c) {
        c = new TcpConn;
        c->sock = this;
        n->conns.append(c);
    }
    c->host = hostName;
    c->port = port;
    c->connectPending = true;
    c->up = false;
    c->inbox.clear();
    setPeerName(hostName);
    setPeerPort(port);
    setSocketState(HostLookupState);
    Q_EMIT stateChanged(HostLookupState);
    setSocketState(ConnectingState);
    Q_EMIT stateChanged(ConnectingState);
    if (n->onConnectRequested) {
        n->onConnectRequested(c);
    }
}

// State changes need the protected setters of QAbstractSocket. They are performed inside flush() (one of the seams, hence a
// member function) when an action has been posted for the socket: flush() has no other job for a simulated socket.
namespace {
enum PendingAction { NoAction, ActUp, ActRefused, ActClosed };
PendingAction g_action = NoAction;
}

void sim::TcpNet::resolveConnect(TcpConn *c, bool ok)
{
    if (!c || !c->sock || !c->connectPending) {
        return;
    }
    c->connectPending = false;
    c->up = ok;
    g_action = ok ? ActUp : ActRefused;
    c->sock->flush();
}

void sim::TcpNet::deliver(TcpConn *c, const QByteArray &bytes)
{
    if (!c || !c->sock || !c->up || bytes.isEmpty()) {
        return;
    }
    c->inbox += bytes;
    Q_EMIT c->sock->readyRead();
}

void sim::TcpNet::remoteClose(TcpConn *c)
{
    if (!c || !c->sock || !c->up) {
        return;
    }
    c->up = false;
    g_action = ActClosed;
    c->sock->flush();
}

void sim::TcpNet::drain(TcpConn *c, int maxBytes, bool announce)
{
    if (!c || c->outbox.isEmpty() || maxBytes <= 0) {
        return;
    }
    const QByteArray b = c->outbox.left(maxBytes);
    c->outbox.remove(0, b.size());
    if (onWire) {
        onWire(c, b);
    }
    if (announce && c->sock) {
        Q_EMIT c->sock->bytesWritten(b.size());
    }
}

qint64 QAbstractSocket::bytesToWrite() const
{
    if (!isSimulated(this)) {
        using Fn = qint64 (*)(const QAbstractSocket *);
        static Fn real = realSymbol<Fn>("_ZNK15QAbstractSocket12bytesToWriteEv");
        return real(this);
    }
    auto *c = TcpNet::instance()->find(this);
    return c ? c->outbox.size() : 0;
}

qint64 QAbstractSocket::readData(char *data, qint64 maxlen)
{
    if (!isSimulated(this)) {
        using Fn = qint64 (*)(QAbstractSocket *, char *, qint64);
        static Fn real = realSymbol<Fn>("_ZN15QAbstractSocket8readDataEPcx");
        return real(this, data, maxlen);
    }
    auto *c = TcpNet::instance()->find(this);
    if (!c) {
        return -1;
    }
    const qint64 n = qMin<qint64>(maxlen, c->inbox.size());
    if (n > 0) {
        memcpy(data, c->inbox.constData(), (size_t)n);
        c->inbox.remove(0, (int)n);
    }
    return n;
}

qint64 QAbstractSocket::writeData(const char *data, qint64 len)
{
    if (!isSimulated(this)) {
        using Fn = qint64 (*)(QAbstractSocket *, const char *, qint64);
        static Fn real = realSymbol<Fn>("_ZN15QAbstractSocket9writeDataEPKcx");
        return real(this, data, len);
    }
    auto *n = TcpNet::instance();
    auto *c = n->find(this);
    if (!c || !c->up) {
        return -1;
    }
    const QByteArray b(data, (int)len);
    c->written += b;
    c->writes++;
    if (n->buffered) {
        c->outbox += b;
        return len;
    }
    if (n->onWrite) {
        n->onWrite(c, b);
    }
    return len;
}

qint64 QAbstractSocket::bytesAvailable() const
{
    if (!isSimulated(this)) {
        using Fn = qint64 (*)(const QAbstractSocket *);
        static Fn real = realSymbol<Fn>("_ZNK15QAbstractSocket14bytesAvailableEv");
        return real(this);
    }
    auto *c = TcpNet::instance()->find(this);
    return (c ? c->inbox.size() : 0) + QIODevice::bytesAvailable();
}

void QAbstractSocket::disconnectFromHost()
{
    if (!isSimulated(this)) {
        using Fn = void (*)(QAbstractSocket *);
        static Fn real = realSymbol<Fn>("_ZN15QAbstractSocket18disconnectFromHostEv");
        real(this);
        return;
    }
    auto *c = TcpNet::instance()->find(this);
    if (state() == UnconnectedState) {
        return;
    }
    if (c) {
        // what is still buffered goes out before the FIN
        TcpNet::instance()->drain(c, c->outbox.size(), false);
        const bool wasUp = c->up;
        c->up = false;
        c->connectPending = false;
        c->localClosed = true;
        if (wasUp && TcpNet::instance()->onLocalClose) {
            TcpNet::instance()->onLocalClose(c);
        }
    }
    setSocketState(UnconnectedState);
    Q_EMIT stateChanged(UnconnectedState);
    Q_EMIT disconnected();
}

bool QAbstractSocket::flush()
{
    if (!isSimulated(this)) {
        using Fn = bool (*)(QAbstractSocket *);
        static Fn real = realSymbol<Fn>("_ZN15QAbstractSocket5flushEv");
        return real(this);
    }
    const PendingAction a = g_action;
    g_action = NoAction;
    switch (a) {
    case ActUp:
        QIODevice::open(QIODevice::ReadWrite | QIODevice::Unbuffered);
        setSocketState(ConnectedState);
        Q_EMIT stateChanged(ConnectedState);
        Q_EMIT connected();
        break;
    case ActRefused:
        setSocketError(ConnectionRefusedError);
        setErrorString(QStringLiteral("simulated: connection refused"));
        setSocketState(UnconnectedState);
        Q_EMIT stateChanged(UnconnectedState);
        Q_EMIT errorOccurred(ConnectionRefusedError);
        Q_EMIT disconnected();
        break;
    case ActClosed:
        setSocketError(RemoteHostClosedError);
        setErrorString(QStringLiteral("simulated: remote host closed"));
        setSocketState(UnconnectedState);
        Q_EMIT stateChanged(UnconnectedState);
        Q_EMIT errorOccurred(RemoteHostClosedError);
        Q_EMIT disconnected();
        break;
    default:
        if (auto *c = TcpNet::instance()->find(this)) {
            TcpNet::instance()->drain(c, c->outbox.size());
        }
        break;
    }
    return true;
}
