// Simulated DNS: QDnsLookup::lookup()/error()/errorString()/serviceRecords() are interposed at link time.
// A lookup stays pending until the world completes it; the only outcomes offered are "no such records" and
// "no records" (QDnsServiceRecord cannot be populated from outside Qt), both of which send the client down its
// built-in address list (direct TLS on 5223, then plain TCP on 5222): the multi-address fail-over path.
#pragma once
#include <QList>
#include <QPointer>

class QDnsLookup;

namespace sim {
struct PendingDns {
    QPointer<QDnsLookup> lookup;
    bool notFound = true;
};
QList<PendingDns> &pendingDns();
// complete every pending lookup (in the order they were started); returns how many were completed
int completeDnsLookups(bool notFound);
void resetDns();
}  // namespace sim
