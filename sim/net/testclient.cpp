#include "testclient.h"

#include <QTimer>

namespace sim {
void resetStanzaIds() { TestClient::resetIds(); }
}  // namespace sim

TestClient::TestClient(InitialExtensions ext, QObject *parent)
    : QXmppClient(ext, parent)
{
    auto *stream = d->stream;
    QSslSocket *old = stream->socket();
    m_sock = new sim::SimSslSocket(stream);
    // XmppSocket::setSocket wires the byte->text->element path to the new socket
    stream->d->socket.setSocket(m_sock);
    // the same four connections the constructors of QXmppOutgoingClient and QXmppClient make on their socket
    connect(m_sock, &QAbstractSocket::disconnected, stream, &QXmppOutgoingClient::_q_socketDisconnected);
    connect(m_sock, QOverload<const QList<QSslError> &>::of(&QSslSocket::sslErrors), stream, &QXmppOutgoingClient::socketSslErrors);
    connect(m_sock, &QSslSocket::errorOccurred, stream, &QXmppOutgoingClient::socketError);
    connect(m_sock, &QAbstractSocket::stateChanged, this, &QXmppClient::_q_socketStateChanged);
    delete old;
}

TestClient::~TestClient() = default;

bool TestClient::reconnectTimerActive() const { return d->reconnectionTimer->isActive(); }
int TestClient::reconnectTimerRemaining() const { return d->reconnectionTimer->remainingTime(); }
