// Harness client. It must be called `TestClient`: QXmppClient, QXmppOutgoingClient, QXmppStanza and
// C2sStreamManager already declare `friend class TestClient` for the library's own unit tests; that
// existing seam is what lets the simulator install its socket without any change to /repo.
#pragma once
#include "QXmppClient.h"
#include "QXmppClientExtension.h"
#include "QXmppClient_p.h"
#include "QXmppOutgoingClient.h"
#include "QXmppOutgoingClient_p.h"
#include "QXmppStreamManagement_p.h"
#include "simsocket.h"

class TestClient : public QXmppClient
{
    Q_OBJECT
public:
    TestClient(InitialExtensions ext, QObject *parent = nullptr);
    ~TestClient() override;

    sim::SimSslSocket *simSocket() const { return m_sock; }
    QXmppOutgoingClient *outgoing() const { return d->stream; }
    QXmppOutgoingClientPrivate *streamPrivate() const { return d->stream->d.get(); }
    bool reconnectTimerActive() const;
    int reconnectTimerRemaining() const;
    // observation only
    unsigned lastIncomingSeq() const { return d->stream->streamAckManager().lastIncomingSequenceNumber(); }
    bool smEnabled() const { return d->stream->c2sStreamManager().enabled(); }
    bool smCanResume() const { return d->stream->c2sStreamManager().canResume(); }
    bool sessionStarted() const { return d->stream->d->sessionStarted; }

    static void resetIds() { QXmppStanza::s_uniqeIdNo = 0; }

private:
    sim::SimSslSocket *m_sock;
};
