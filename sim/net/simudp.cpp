#include "simudp.h"
#include <dlfcn.h>

#include <QUdpSocket>

namespace sim {

static UdpNet *g_udp = nullptr;

UdpNet::UdpNet() { g_udp = this; }
UdpNet::~UdpNet()
{
    if (g_udp == this) {
        g_udp = nullptr;
    }
}
UdpNet *UdpNet::instance() { return g_udp; }

UdpNet::Bound *UdpNet::find(const QUdpSocket *s)
{
    for (auto &b : sockets) {
        if (b.socket == s) {
            return &b;
        }
    }
    return nullptr;
}

UdpNet::Bound *UdpNet::findAddr(const QHostAddress &a, quint16 port)
{
    for (auto &b : sockets) {
        if (b.port == port && b.addr == a) {
            return &b;
        }
    }
    return nullptr;
}

bool UdpNet::bind(QUdpSocket *s, const QHostAddress &a, quint16 port)
{
    if (bindFailuresLeft > 0) {
        --bindFailuresLeft;
        return false;
    }
    if (port == 0) {
        port = 40000;
        while (findAddr(a, port)) {
            ++port;
        }
    } else if (findAddr(a, port)) {
        return false;
    }
    sockets.append(Bound { s, a, port, {} });
    QObject::connect(s, &QObject::destroyed, [s] {
        if (g_udp) {
            g_udp->forget(s);
        }
    });
    return true;
}

void UdpNet::forget(QUdpSocket *s)
{
    for (int i = 0; i < sockets.size(); ++i) {
        if (sockets[i].socket == s) {
            sockets.removeAt(i);
            return;
        }
    }
}

qint64 UdpNet::write(QUdpSocket *s, const QByteArray &data, const QHostAddress &host, quint16 port)
{
    Bound *b = find(s);
    if (!b) {
        return -1;
    }
    Datagram d;
    d.id = nextId++;
    d.src = b->addr;
    d.sport = b->port;
    for (const auto &m : std::as_const(nat)) {
        if (m.priv == b->addr && m.privPort == b->port) {
            d.src = m.pub;
            d.sport = m.pubPort;
            break;
        }
    }
    d.dst = host;
    d.dport = port;
    d.data = data;
    ++sent;
    if (onSend) {
        onSend(d);
    }
    inflight.append(d);
    return data.size();
}

bool UdpNet::deliver(const Datagram &d0)
{
    Datagram d = d0;
    if (blocked && blocked(d)) {
        ++droppedBlocked;
        return false;
    }
    for (const auto &m : std::as_const(nat)) {
        if (m.pub == d.dst && m.pubPort == d.dport) {
            d.dst = m.priv;
            d.dport = m.privPort;
            break;
        }
        if (m.priv == d.dst && m.privPort == d.dport) {
            // a private address cannot be reached from the outside
            ++droppedPrivate;
            return false;
        }
    }
    Bound *b = findAddr(d.dst, d.dport);
    if (!b) {
        if (onUnbound && onUnbound(d)) {
            return true;
        }
        ++droppedNoListener;
        return false;
    }
    b->queue.append(d);
    ++delivered;
    QUdpSocket *s = b->socket;
    Q_EMIT s->readyRead();
    return true;
}

bool UdpNet::deliverInflight(int index)
{
    if (index < 0 || index >= inflight.size()) {
        return false;
    }
    const Datagram d = inflight.takeAt(index);
    return deliver(d);
}

void UdpNet::dropInflight(int index)
{
    if (index >= 0 && index < inflight.size()) {
        inflight.removeAt(index);
    }
}

void UdpNet::duplicateInflight(int index)
{
    if (index >= 0 && index < inflight.size()) {
        Datagram d = inflight[index];
        d.id = nextId++;
        d.duplicate = true;
        inflight.append(d);
    }
}

}  // namespace sim

// ---------------------------------------------------------------------------------------------------------
// link-time seams: these definitions in the executable take precedence over the ones in libQt5Network

using sim::UdpNet;

qint64 QUdpSocket::writeDatagram(const char *data, qint64 len, const QHostAddress &host, quint16 port)
{
    auto *n = UdpNet::instance();
    return n ? n->write(this, QByteArray(data, (int)len), host, port) : -1;
}

qint64 QUdpSocket::readDatagram(char *data, qint64 maxlen, QHostAddress *host, quint16 *port)
{
    auto *n = UdpNet::instance();
    auto *b = n ? n->find(this) : nullptr;
    if (!b || b->queue.isEmpty()) {
        return -1;
    }
    const sim::Datagram d = b->queue.takeFirst();
    const qint64 k = qMin<qint64>(maxlen, d.data.size());
    memcpy(data, d.data.constData(), (size_t)k);
    if (host) {
        *host = d.src;
    }
    if (port) {
        *port = d.sport;
    }
    return k;
}

bool QUdpSocket::hasPendingDatagrams() const
{
    auto *n = UdpNet::instance();
    auto *b = n ? n->find(this) : nullptr;
    return b && !b->queue.isEmpty();
}

qint64 QUdpSocket::pendingDatagramSize() const
{
    auto *n = UdpNet::instance();
    auto *b = n ? n->find(this) : nullptr;
    return (b && !b->queue.isEmpty()) ? b->queue.first().data.size() : -1;
}

bool QAbstractSocket::bind(const QHostAddress &address, quint16 port, BindMode)
{
    auto *n = UdpNet::instance();
    auto *u = qobject_cast<QUdpSocket *>(this);
    return n && u && n->bind(u, address, port);
}

// bind(port): "any address" — the world decides which address of the simulated host the socket uses
bool QAbstractSocket::bind(quint16 port, BindMode mode)
{
    auto *n = UdpNet::instance();
    auto *u = qobject_cast<QUdpSocket *>(this);
    if (!n || !u) {
        using Fn = bool (*)(QAbstractSocket *, quint16, int);
        static Fn real = reinterpret_cast<Fn>(dlsym(RTLD_NEXT, "_ZN15QAbstractSocket4bindEt6QFlagsINS_8BindFlagEE"));
        return real(this, port, (int)mode);
    }
    return n->bind(u, n->anyAddress ? n->anyAddress(u) : QHostAddress(QHostAddress::AnyIPv4), port);
}

QHostAddress QAbstractSocket::localAddress() const
{
    auto *n = UdpNet::instance();
    auto *u = qobject_cast<const QUdpSocket *>(this);
    auto *b = (n && u) ? n->find(u) : nullptr;
    return b ? b->addr : QHostAddress();
}

quint16 QAbstractSocket::localPort() const
{
    auto *n = UdpNet::instance();
    auto *u = qobject_cast<const QUdpSocket *>(this);
    auto *b = (n && u) ? n->find(u) : nullptr;
    return b ? b->port : 0;
}
