// Simulated UDP: QUdpSocket/QAbstractSocket entry points used by the ICE code are interposed at link time
// (simudp.cpp) and routed through this in-process network. No kernel socket is ever created.
#pragma once
#include <QByteArray>
#include <QHostAddress>
#include <QList>
#include <functional>

class QUdpSocket;

namespace sim {

struct Datagram {
    int id = 0;
    QHostAddress src;
    quint16 sport = 0;
    QHostAddress dst;
    quint16 dport = 0;
    QByteArray data;
    bool retransmission = false;   // the same bytes were sent on the same path before
    bool duplicate = false;        // produced by the network
};

class UdpNet
{
public:
    UdpNet();
    ~UdpNet();
    static UdpNet *instance();

    struct Bound {
        QUdpSocket *socket;
        QHostAddress addr;
        quint16 port;
        QList<Datagram> queue;
    };
    // full-cone NAT: everything a socket sends to the outside leaves from its public mapping, everything sent to
    // the public mapping reaches the socket; the private address is unreachable from outside
    struct NatMapping {
        QHostAddress priv;
        quint16 privPort;
        QHostAddress pub;
        quint16 pubPort;
    };
    QList<NatMapping> nat;
    quint64 droppedPrivate = 0;
    QList<Bound> sockets;            // in bind order (never iterated by pointer value)
    QList<Datagram> inflight;        // sent, not yet delivered or dropped
    int nextId = 1;
    int bindFailuresLeft = 0;        // fault: the next binds report "address in use"
    std::function<void(const Datagram &)> onSend;   // observer (oracles)
    std::function<bool(const Datagram &)> onUnbound;   // a node of the world that is not a QUdpSocket (TURN server); true: consumed
    std::function<bool(const Datagram &)> blocked;     // a path the network does not carry (true: dropped)
    quint64 droppedBlocked = 0;
    std::function<QHostAddress(QUdpSocket *)> anyAddress;   // address given to a socket bound to "any" (bind(port))
    quint64 sent = 0, delivered = 0, droppedNoListener = 0;

    Bound *find(const QUdpSocket *s);
    Bound *findAddr(const QHostAddress &a, quint16 port);
    bool bind(QUdpSocket *s, const QHostAddress &a, quint16 port);
    qint64 write(QUdpSocket *s, const QByteArray &d, const QHostAddress &host, quint16 port);
    // hand a datagram to whoever is bound to its destination (false: nobody listens)
    bool deliver(const Datagram &d);
    bool deliverInflight(int index);
    void dropInflight(int index);
    void duplicateInflight(int index);
    void forget(QUdpSocket *s);
};

}  // namespace sim
