#include "simsocket.h"

#include <QHostAddress>
#include <cstring>

namespace sim {

// ---------------------------------------------------------------- SimLink

int SimLink::pendingBytes(int dir) const
{
    int n = 0;
    for (const auto &s : q[dir]) {
        n += s.data.size();
    }
    return n;
}

void SimLink::write(int from, const QByteArray &data)
{
    wire.append(WireRecord { from, encrypted, data, g_now_ms });
    if (onWrite) {
        onWrite(from, data);
    }
    if (dead || !up || closed[from]) {
        return;
    }
    if (stalled) {
        note("stall_swallowed_bytes");
        return;
    }
    q[from].append(Seg { data, false });
}

void SimLink::deliver(int dir, int nbytes)
{
    if (q[dir].isEmpty() || dead) {
        return;
    }
    LinkEnd *to = end[1 - dir];
    Seg &head = q[dir].first();
    if (head.fin) {
        q[dir].removeFirst();
        if (to) {
            to->linkPeerClosed();
        }
        return;
    }
    QByteArray out;
    if (nbytes <= 0) {
        out = head.data;
        q[dir].removeFirst();
    } else {
        // take nbytes across data segments (coalescing), stop before a FIN marker
        while (nbytes > 0 && !q[dir].isEmpty() && !q[dir].first().fin) {
            Seg &h = q[dir].first();
            if (h.data.size() <= nbytes) {
                out += h.data;
                nbytes -= h.data.size();
                q[dir].removeFirst();
            } else {
                out += h.data.left(nbytes);
                h.data.remove(0, nbytes);
                nbytes = 0;
            }
        }
    }
    if (to && !out.isEmpty()) {
        if (onDeliver) {
            onDeliver(dir, out);
        }
        to->linkDeliver(out);
    }
}

void SimLink::deliverAll(int dir)
{
    int guard = 0;
    while (!q[dir].isEmpty() && !dead && guard++ < 100000) {
        deliver(dir, 0);
    }
}

void SimLink::closeFrom(int from)
{
    if (dead || closed[from]) {
        return;
    }
    closed[from] = true;
    if (up && !stalled) {
        q[from].append(Seg { {}, true });
    }
}

void SimLink::cut(int err0, int err1)
{
    if (dead) {
        return;
    }
    dead = true;
    up = false;
    int lost = pendingBytes(0) + pendingBytes(1);
    if (lost > 0) {
        note("cut_lost_inflight");
    }
    q[0].clear();
    q[1].clear();
    LinkEnd *e0 = end[0], *e1 = end[1];
    if (e0 && !closed[0]) {
        e0->linkAborted(err0);
    }
    if (e1 && !closed[1]) {
        e1->linkAborted(err1);
    }
}

// ---------------------------------------------------------------- SimSslSocket

static QSet<const QSslSocket *> &simSockets()
{
    static QSet<const QSslSocket *> s;
    return s;
}

SimSslSocket::SimSslSocket(QObject *parent) : QSslSocket(parent) { simSockets().insert(this); }

SimSslSocket::~SimSslSocket()
{
    simSockets().remove(this);
    if (link && link->end[side] == this) {
        link->end[side] = nullptr;
    }
}

void SimSslSocket::toState(SocketState s)
{
    if (state() != s) {
        setSocketState(s);
        Q_EMIT stateChanged(s);
    }
}

void SimSslSocket::attach(SimLink *l, int side_)
{
    link = l;
    side = side_;
    l->end[side_] = this;
    QIODevice::open(ReadWrite | Unbuffered);
    setPeerAddress(QHostAddress(QStringLiteral("10.9.9.9")));
    setPeerPort(40000);
    setLocalAddress(QHostAddress(QStringLiteral("10.1.1.1")));
    setLocalPort(5222);
    setSocketState(ConnectedState);
}

void SimSslSocket::connectToHost(const QString &hostName, quint16 port, OpenMode, NetworkLayerProtocol)
{
    if (state() != UnconnectedState) {
        // Qt warns and ignores
        directTlsRequested = false;
        return;
    }
    m_in.clear();
    simEncrypted = false;
    closePending = false;
    directTls = directTlsRequested || (mode() == SslClientMode);
    directTlsRequested = false;
    setPeerName(hostName);
    setPeerPort(port);
    toState(HostLookupState);
    toState(ConnectingState);
    if (onConnectRequested) {
        onConnectRequested(this, hostName, port, directTls);
    }
}

void SimSslSocket::completeConnect()
{
    if (state() != ConnectingState) {
        return;
    }
    QIODevice::open(ReadWrite | Unbuffered);
    setPeerAddress(QHostAddress(QStringLiteral("10.0.0.1")));
    setLocalAddress(QHostAddress(QStringLiteral("10.0.0.2")));
    setLocalPort(50000);
    toState(ConnectedState);
    Q_EMIT connected();
}

void SimSslSocket::failConnect(QAbstractSocket::SocketError err)
{
    if (state() != ConnectingState) {
        return;
    }
    setSocketError(err);
    setErrorString(QStringLiteral("simulated connect failure %1").arg((int)err));
    toState(UnconnectedState);
    Q_EMIT errorOccurred(err);
}

void SimSslSocket::completeTls(bool ok)
{
    if (state() != ConnectedState) {
        return;
    }
    if (ok) {
        simEncrypted = true;
        if (link) {
            link->encrypted = true;
        }
        Q_EMIT encrypted();
    } else {
        setSocketError(SslHandshakeFailedError);
        setErrorString(QStringLiteral("simulated TLS handshake failure"));
        Q_EMIT errorOccurred(SslHandshakeFailedError);
        // Qt closes the connection after a failed handshake
        if (state() == ConnectedState) {
            if (link) {
                link->closeFrom(side);
            }
            goUnconnected();
        }
    }
}

void SimSslSocket::goUnconnected()
{
    if (state() == UnconnectedState) {
        return;
    }
    simEncrypted = false;
    closePending = false;
    toState(UnconnectedState);
    QIODevice::close();
    setSocketState(UnconnectedState);
    Q_EMIT disconnected();
}

void SimSslSocket::disconnectFromHost()
{
    if (state() == UnconnectedState) {
        return;
    }
    if (state() == ConnectingState || state() == HostLookupState) {
        // abort a connection attempt
        if (onLocalClose) {
            onLocalClose(this);
        }
        toState(UnconnectedState);
        Q_EMIT disconnected();
        return;
    }
    if (state() == ClosingState) {
        return;
    }
    if (link) {
        link->closeFrom(side);
    }
    if (onLocalClose) {
        onLocalClose(this);
    }
    if (deferDisconnect) {
        // legal Qt behaviour when the write buffer has not drained yet: Closing now, Unconnected on return to the loop
        toState(ClosingState);
        closePending = true;
        return;
    }
    toState(ClosingState);
    goUnconnected();
}

void SimSslSocket::finishDeferredClose()
{
    if (closePending && state() == ClosingState) {
        goUnconnected();
    }
}

void SimSslSocket::close()
{
    disconnectFromHost();
    if (state() == ClosingState) {
        goUnconnected();
    }
}

qint64 SimSslSocket::bytesAvailable() const { return m_in.size(); }

qint64 SimSslSocket::readData(char *data, qint64 maxlen)
{
    qint64 n = qMin<qint64>(maxlen, m_in.size());
    if (n > 0) {
        memcpy(data, m_in.constData(), n);
        m_in.remove(0, n);
    }
    return n;
}

qint64 SimSslSocket::writeData(const char *data, qint64 len)
{
    if (state() != ConnectedState) {
        return -1;
    }
    if (link) {
        link->write(side, QByteArray(data, (int)len));
    }
    return len;
}

void SimSslSocket::linkDeliver(const QByteArray &b)
{
    if (state() != ConnectedState) {
        return;
    }
    m_in += b;
    Q_EMIT readyRead();
}

void SimSslSocket::linkPeerClosed()
{
    if (state() != ConnectedState && state() != ClosingState) {
        return;
    }
    setSocketError(RemoteHostClosedError);
    setErrorString(QStringLiteral("The remote host closed the connection"));
    Q_EMIT errorOccurred(RemoteHostClosedError);
    if (state() == ConnectedState || state() == ClosingState) {
        if (link) {
            link->closed[side] = true;
        }
        toState(ClosingState);
        goUnconnected();
    }
}

void SimSslSocket::linkAborted(int socketError)
{
    if (state() == UnconnectedState) {
        return;
    }
    auto err = (QAbstractSocket::SocketError)socketError;
    setSocketError(err);
    setErrorString(QStringLiteral("simulated network failure %1").arg(socketError));
    Q_EMIT errorOccurred(err);
    if (state() != UnconnectedState) {
        goUnconnected();
    }
}

}  // namespace sim

// ------------------------------------------------------------------------------------------------
// Link-time seams for the non-virtual TLS entry points of QSslSocket used by the library.
// ------------------------------------------------------------------------------------------------
using sim::SimSslSocket;

bool QSslSocket::isEncrypted() const
{
    if (sim::simSockets().contains(this)) {
        return static_cast<const SimSslSocket *>(this)->simEncrypted;
    }
    return false;
}

void QSslSocket::startClientEncryption()
{
    if (sim::simSockets().contains(this)) {
        auto *s = static_cast<SimSslSocket *>(this);
        if (s->onStartClientTls) {
            s->onStartClientTls(s);
        }
    }
}

void QSslSocket::startServerEncryption() { }

// direct TLS: the handshake starts as soon as the TCP connection exists
void QSslSocket::connectToHostEncrypted(const QString &hostName, quint16 port, OpenMode mode, NetworkLayerProtocol protocol)
{
    if (sim::simSockets().contains(this)) {
        static_cast<SimSslSocket *>(this)->directTlsRequested = true;
    }
    connectToHost(hostName, port, mode, protocol);
}

bool QSslSocket::flush() { return true; }
