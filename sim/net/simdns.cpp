#include "simdns.h"

#include <QDnsLookup>
#include <QHash>

namespace sim {

static QList<PendingDns> g_pending;
static QHash<const QDnsLookup *, bool> g_notFound;

QList<PendingDns> &pendingDns() { return g_pending; }

int completeDnsLookups(bool notFound)
{
    int n = 0;
    while (!g_pending.isEmpty()) {
        PendingDns p = g_pending.takeFirst();
        if (p.lookup) {
            g_notFound[p.lookup.data()] = notFound;
            ++n;
            Q_EMIT p.lookup->finished();
        }
    }
    return n;
}

void resetDns()
{
    g_pending.clear();
    g_notFound.clear();
}

}  // namespace sim

void QDnsLookup::lookup()
{
    sim::g_pending.append(sim::PendingDns { this, true });
}

QDnsLookup::Error QDnsLookup::error() const
{
    return sim::g_notFound.value(this, true) ? NotFoundError : NoError;
}

QString QDnsLookup::errorString() const
{
    return sim::g_notFound.value(this, true) ? QStringLiteral("simulated: no such records") : QString();
}

QList<QDnsServiceRecord> QDnsLookup::serviceRecords() const
{
    return {};
}
