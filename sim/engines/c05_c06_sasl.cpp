// C05 — SASL negotiation picks the strongest permitted mechanism, never a disabled one.
// C06 — SASL exchanges follow their RFCs; a server that cannot prove itself is refused.
#include "session_world.h"

using namespace sim;

namespace {

// ------------------------------------------------------------------------------------------------ C05

static const char *kOfferNames[] = {
    "SCRAM-SHA3-512", "SCRAM-SHA-512", "SCRAM-SHA-256", "SCRAM-SHA-1", "DIGEST-MD5", "PLAIN", "ANONYMOUS",
    "HT-SHA-256-NONE", "HT-SHA-512-NONE", "HT-SHA3-512-NONE",
    // unknown / garbled / unusable names
    "SCRAM-SHA-1-PLUS", "SCRAM-SHA-384", "scram-sha-256", "GSSAPI", "EXTERNAL", "X-OAUTH2", "X-FACEBOOK-PLATFORM", "X-MESSENGER-OAUTH2",
    "HT-SHA-256-ENDP", "HT-SHA-999-NONE", "PLAINN", "DIGEST-MD5-SESS", "SCRAM-SHA-512 ", "",
};
constexpr int kOfferCount = sizeof(kOfferNames) / sizeof(*kOfferNames);

// strength of a *known* mechanism name as stated by the property (higher is stronger); -1 = not a known mechanism
static int strength(const QString &m, const QString &tokenMech)
{
    if (m.startsWith(QLatin1String("HT-")) && m.endsWith(QLatin1String("-NONE"))) {
        static const char *hashes[] = { "SHA-256", "SHA-384", "SHA-512", "SHA3-224", "SHA3-256", "SHA3-384", "SHA3-512" };
        const QString h = m.mid(3, m.size() - 8);
        for (const char *x : hashes) {
            if (h == QLatin1String(x)) {
                Q_UNUSED(tokenMech);
                return 100;
            }
        }
        return -1;
    }
    if (m == QLatin1String("SCRAM-SHA3-512")) {
        return 90;
    }
    if (m == QLatin1String("SCRAM-SHA-512")) {
        return 80;
    }
    if (m == QLatin1String("SCRAM-SHA-256")) {
        return 70;
    }
    if (m == QLatin1String("SCRAM-SHA-1")) {
        return 60;
    }
    if (m == QLatin1String("DIGEST-MD5")) {
        return 50;
    }
    if (m == QLatin1String("PLAIN")) {
        return 40;
    }
    if (m == QLatin1String("ANONYMOUS")) {
        return 30;
    }
    if (m == QLatin1String("X-FACEBOOK-PLATFORM") || m == QLatin1String("X-MESSENGER-OAUTH2") || m == QLatin1String("X-OAUTH2")) {
        return 10;   // known, but their credentials are never configured here
    }
    return -1;
}

class C05Engine : public Engine
{
public:
    QString property() const override { return QStringLiteral("C05"); }
    QString describe() const override
    {
        return QStringLiteral("real: QXmppClient negotiation up to the first <auth/>/<authenticate/>, SaslManager/Sasl2Manager mechanism choice, FastTokenManager, credentials ; "
                              "stub: transport, ScriptedServer offering the drawn mechanism list ; no schedule dimension (choice is a function of offer x configuration x credential history)");
    }

    Plan generate(quint64 seed, const QString &) override
    {
        Plan p;
        Prng r(derive(seed, "c05"));
        auto &k = p.knobs;
        auto &s = p.sknobs;
        const bool v2 = r.chance(0.45);
        QStringList offer;
        const int n = (int)r.range(0, 7);
        for (int i = 0; i < n; ++i) {
            offer << QString::fromLatin1(kOfferNames[r.chance(0.7) ? r.uniform(10) : r.uniform(kOfferCount)]);
        }
        QStringList fast;
        if (v2) {
            if (offer.join(QLatin1Char(',')).isEmpty()) {
                offer << QStringLiteral("PLAIN");   // an <authentication/> feature without mechanisms is not offered at all by the scripted server
            }
            s[QStringLiteral("sasl2")] = offer.join(QLatin1Char(','));
            s[QStringLiteral("sasl1")] = QString();
            if (r.chance(0.6)) {
                const int nf = (int)r.range(1, 3);
                for (int i = 0; i < nf; ++i) {
                    fast << QString::fromLatin1(kOfferNames[7 + r.uniform(3)]);
                }
                s[QStringLiteral("fast")] = fast.join(QLatin1Char(','));
            }
            k[QStringLiteral("bind2")] = r.chance(0.5);
        } else {
            if (offer.join(QLatin1Char(',')).isEmpty()) {
                offer << QStringLiteral("GSSAPI");
            }
            s[QStringLiteral("sasl1")] = offer.join(QLatin1Char(','));
        }
        // configuration
        QStringList disabled;
        switch (r.weighted({ 45, 15, 40 })) {
        case 0:
            disabled << QStringLiteral("PLAIN");   // library default
            break;
        case 1:
            break;
        default: {
            const int nd = (int)r.range(1, 4);
            for (int i = 0; i < nd; ++i) {
                disabled << QString::fromLatin1(kOfferNames[r.uniform(10)]);
            }
        }
        }
        disabled.removeDuplicates();
        s[QStringLiteral("disabledMechs")] = disabled.join(QLatin1Char(','));
        if (r.chance(0.45)) {
            s[QStringLiteral("prefMech")] = QString::fromLatin1(kOfferNames[r.chance(0.8) ? r.uniform(10) : r.uniform(kOfferCount - 1)]);
        }
        if (r.chance(0.15)) {
            s[QStringLiteral("password")] = QString();   // no password available
            s[QStringLiteral("serverPassword")] = QStringLiteral("x");
        }
        k[QStringLiteral("userAgent")] = r.chance(0.7);
        k[QStringLiteral("useFast")] = r.chance(0.85);
        if (r.chance(0.5)) {
            // a token obtained in an earlier session
            s[QStringLiteral("fastToken")] = QStringLiteral("tok-%1").arg(r.uniform(100000));
            s[QStringLiteral("fastTokenMech")] = QString::fromLatin1(kOfferNames[7 + r.uniform(3)]);
        }
        k[QStringLiteral("scramIter")] = 1;
        k[QStringLiteral("autoReconnect")] = 0;
        p.ops.append(mkop(QStringLiteral("connect")));
        p.ops.append(mkop(QStringLiteral("pump")));
        return p;
    }

    RunResult execute(const Plan &plan, bool verbose) override
    {
        RunResult res;
        Trace tr(verbose);
        {
            SessionWorld w(plan, tr, res);
            QString firstAuthMech;
            bool sawAuth = false;
            w.onNewLink = [&](SimLink *l) {
                l->onWrite = [&](int from, const QByteArray &d) {
                    if (from != 0 || sawAuth) {
                        return;
                    }
                    if (d.startsWith("<auth ") || d.startsWith("<authenticate ")) {
                        sawAuth = true;
                        int i = d.indexOf(" mechanism=\"");
                        int e = d.indexOf('"', i + 12);
                        firstAuthMech = QString::fromUtf8(d.mid(i + 12, e - i - 12));
                    }
                };
            };
            w.createClient(QXmppClient::NoExtensions);
            // a token is only usable if the server knows it
            const QString token = plan.sknob(QStringLiteral("fastToken"));
            const QString tokenMech = plan.sknob(QStringLiteral("fastTokenMech"), QStringLiteral("HT-SHA-256-NONE"));
            if (!token.isEmpty()) {
                w.server->fastTokens[token] = w.config.user();
            }
            for (const auto &op : plan.ops) {
                w.applyCommon(op);
                w.afterStep();
            }
            // ---------------- independent statement of the rule
            const bool v2 = !w.profile.sasl2.isEmpty();
            const QStringList disabled = w.config.disabledSaslMechanisms();
            const bool fastUsable = v2 && !w.profile.fastMechs.isEmpty() && plan.knob(QStringLiteral("useFast"), 1) && plan.knob(QStringLiteral("userAgent"), 0);
            QStringList offered = v2 ? w.profile.sasl2 : w.profile.sasl1;
            if (fastUsable) {
                offered += w.profile.fastMechs;
            }
            const bool havePassword = !w.config.password().isEmpty();
            QStringList candidates;
            for (const auto &m : offered) {
                const int st = strength(m, tokenMech);
                if (st < 0 || disabled.contains(m)) {
                    continue;
                }
                bool usable = false;
                if (st == 100) {
                    usable = !token.isEmpty() && m == tokenMech;
                } else if (st >= 40) {
                    usable = havePassword;
                } else if (st == 30) {
                    usable = true;
                }
                if (usable) {
                    candidates << m;
                }
            }
            QString expected;
            const QString pref = plan.sknob(QStringLiteral("prefMech"));
            if (!candidates.isEmpty()) {
                if (!pref.isEmpty() && candidates.contains(pref)) {
                    expected = pref;
                    w.probe("preferred_mechanism_applies");
                } else {
                    int best = -1;
                    for (const auto &m : candidates) {
                        if (strength(m, tokenMech) > best) {
                            best = strength(m, tokenMech);
                            expected = m;
                        }
                    }
                }
            }
            tr.log(QStringLiteral("model: offered=[%1] disabled=[%2] preferred=%3 password=%4 token=%5 -> expected '%6', client chose '%7'")
                       .arg(offered.join(QLatin1Char(',')), disabled.join(QLatin1Char(',')), pref).arg(havePassword).arg(token.isEmpty() ? QStringLiteral("-") : tokenMech).arg(expected, firstAuthMech));
            const QString shape = QStringLiteral("%1:%2").arg(v2 ? QStringLiteral("sasl2") : QStringLiteral("sasl1"), expected.isEmpty() ? QStringLiteral("none") : expected);
            if (sawAuth && disabled.contains(firstAuthMech)) {
                w.violation(QStringLiteral("disabled_used"), QStringLiteral("C05:disabled_mechanism_used:") + firstAuthMech,
                            QStringLiteral("the client authenticated with %1 which is disabled in its configuration").arg(firstAuthMech));
            }
            if (expected.isEmpty()) {
                w.probe("nothing_qualifies");
                if (sawAuth) {
                    w.violation(QStringLiteral("sent_although_nothing_qualifies"), QStringLiteral("C05:authentication_sent_although_no_mechanism_qualifies:") + firstAuthMech,
                                QStringLiteral("no offered mechanism is supported, enabled and usable, but the client sent %1").arg(firstAuthMech));
                } else {
                    bool reported = false;
                    for (const auto &e : w.events) {
                        reported = reported || (e.kind == QLatin1String("error") && e.detail.contains(QLatin1String("No supported SASL mechanism")));
                    }
                    if (!reported) {
                        w.violation(QStringLiteral("mismatch_not_reported"), QStringLiteral("C05:mechanism_mismatch_not_reported"),
                                    QStringLiteral("nothing qualifies but no mechanism-mismatch error was reported"));
                    }
                }
            } else if (!sawAuth) {
                w.violation(QStringLiteral("no_auth_sent"), QStringLiteral("C05:no_authentication_although_mechanism_qualifies:") + shape,
                            QStringLiteral("'%1' qualifies but the client sent no authentication element").arg(expected));
            } else if (firstAuthMech != expected) {
                w.violation(QStringLiteral("wrong_mechanism"), QStringLiteral("C05:wrong_mechanism_chosen:expected_%1:got_%2").arg(expected, firstAuthMech),
                            QStringLiteral("offered [%1], disabled [%2], preferred '%3': expected %4, the client used %5").arg(offered.join(QLatin1Char(',')), disabled.join(QLatin1Char(',')), pref, expected, firstAuthMech));
            }
            res.caseKey = QStringLiteral("%1|%2|%3|%4|%5|%6").arg(offered.join(QLatin1Char(',')), disabled.join(QLatin1Char(',')), pref).arg(havePassword).arg(token.isEmpty() ? QString() : tokenMech).arg(v2);
            res.nontrivial = offered.size() >= 2;
            w.client->disconnectFromServer();
            w.pump(nullptr);
        }
        res.traceHash = tr.hash.value();
        res.trace = tr.lines;
        return res;
    }
    bool removable(const Plan &, int) override { return false; }
};

static EngineRegistrar reg5(new C05Engine);

// ------------------------------------------------------------------------------------------------ C06

static const char *kUsers[] = { "alice", "a", "user.name", "user-name_1", "o'neil", "50%off", "comma,user", "equals=user", "both,=x", "\xc3\xa9milie", "gr\xc3\xbc\xc3\x9f" "e",
                                "\xce\xb1\xce\xbb\xce\xaf\xce\xba\xce\xb7", "\xe5\xbc\xa0\xe4\xbc\x9f", "x=2C", "UPPER", "semi;colon", "plus+tag", "tilde~", "back\\slash", "q\"uote", "joe%2", "50%3off", "%1", "%1%2%3", "100%" };
static const char *kPasswords[] = { "pencil", "correct horse battery staple", "p", "with,comma=equals", "quote\"d \\ back", "\xc3\xa9t\xc3\xa9", "\xcf\x80\xce\xb1\xcf\x83\xcf\x83", "\xe5\xaf\x86\xe7\xa0\x81",
                                    "emoji\xf0\x9f\x94\x91key", "0123456789012345678901234567890123456789012345678901234567890123456789", "sp ace", "<&>'", ":colon:", "tr\xc3\xa4iling=", "%1pw", "pw%2%3" };

class C06Engine : public Engine
{
public:
    QString property() const override { return QStringLiteral("C06"); }
    QString describe() const override
    {
        return QStringLiteral("real: QXmppClient negotiation, SaslManager/Sasl2Manager, QXmppSaslClient{Scram,DigestMd5,Plain,Ht} ; "
                              "stub: transport, ScriptedServer as an independent RFC 5802/2831/4616/XEP-0484 implementation on OpenSSL (honest or misbehaving message sequences), seeded nonces");
    }

    static constexpr const char *kScramQuirks[] = { "nonce_mismatch", "nonce_truncated", "iter0", "iter_neg", "iter_nan", "iter_huge", "no_r", "no_s", "no_i", "empty_salt", "wrong_v", "wrong_v_prefix_ok", "error_e", "success_no_v", "success_server_first_again", "extra_challenge" };
    static constexpr const char *kDigestQuirks[] = { "rspauth_wrong", "rspauth_missing", "no_nonce", "qop_noauth" };

    Plan generate(quint64 seed, const QString &) override
    {
        Plan p;
        Prng r(derive(seed, "c06"));
        auto &k = p.knobs;
        auto &s = p.sknobs;
        static const char *mechs[] = { "SCRAM-SHA-1", "SCRAM-SHA-256", "SCRAM-SHA-512", "SCRAM-SHA3-512", "DIGEST-MD5", "PLAIN", "HT-SHA-256-NONE", "HT-SHA-512-NONE", "HT-SHA3-512-NONE" };
        const int mi = r.weighted({ 18, 18, 12, 10, 18, 10, 6, 4, 4 });
        const QString mech = QString::fromLatin1(mechs[mi]);
        const bool ht = mi >= 6;
        const bool v2 = ht || r.chance(0.4);
        s[QStringLiteral("mech")] = mech;
        s[QStringLiteral("user")] = QString::fromUtf8(kUsers[r.uniform(sizeof(kUsers) / sizeof(*kUsers))]);
        s[QStringLiteral("password")] = QString::fromUtf8(kPasswords[r.uniform(sizeof(kPasswords) / sizeof(*kPasswords))]);
        s[QStringLiteral("disabledMechs")] = QString();
        s[QStringLiteral("prefMech")] = mech;
        if (v2) {
            s[QStringLiteral("sasl1")] = QString();
            s[QStringLiteral("sasl2")] = ht ? QStringLiteral("SCRAM-SHA-1") : mech;
            k[QStringLiteral("bind2")] = r.chance(0.5);
            if (ht) {
                s[QStringLiteral("fast")] = mech;
                s[QStringLiteral("fastToken")] = QStringLiteral("token-%1-\xc3\xa4").arg(r.uniform(1000000));
                s[QStringLiteral("fastTokenMech")] = mech;
                k[QStringLiteral("userAgent")] = 1;
            }
        } else {
            s[QStringLiteral("sasl1")] = mech;
        }
        k[QStringLiteral("scramIter")] = r.pick(QVector<int> { 1, 2, 3, 64, 1000, 4096, 10000, 20000 });
        if (r.chance(0.6)) {
            k[QStringLiteral("scramIter")] = r.pick(QVector<int> { 1, 2, 3, 64 });
        }
        k[QStringLiteral("saltLen")] = r.range(1, 64);
        {
            // extension attributes after the iteration count (own stream: the other draws of a seed stay what they were)
            Prng re(derive(seed, "c06ext"));
            k[QStringLiteral("scramExt")] = re.chance(0.15) ? (qint64)re.range(1, 3) : 0;
        }
        k[QStringLiteral("scramFinalInSuccess")] = r.chance(0.35);
        k[QStringLiteral("autoReconnect")] = 0;
        // the server's message sequence
        const int hist = r.weighted({ 45, 40, 15 });   // honest, misbehaving, holds another secret
        if (hist == 1) {
            if (mech.startsWith(QLatin1String("SCRAM"))) {
                if (r.chance(0.2)) {
                    static const char *early[] = { "early_success", "early_success_server_first", "early_success_garbage" };
                    s[QStringLiteral("q.sasl")] = QString::fromLatin1(early[r.uniform(3)]);
                } else {
                    s[QStringLiteral("q.scram")] = QString::fromLatin1(kScramQuirks[r.uniform(sizeof(kScramQuirks) / sizeof(*kScramQuirks))]);
                }
            } else if (mech == QLatin1String("DIGEST-MD5")) {
                s[QStringLiteral("q.digest")] = QString::fromLatin1(kDigestQuirks[r.uniform(4)]);
            }
        } else if (hist == 2) {
            s[QStringLiteral("q.account")] = QStringLiteral("other_password");
            s[QStringLiteral("serverPassword")] = s[QStringLiteral("password")] + QStringLiteral("x");
        }
        p.ops.append(mkop(QStringLiteral("connect")));
        p.ops.append(mkop(QStringLiteral("pump"), { (qint64)r.chance(0.5) }, {}, (quint32)r.next()));
        if (hist == 0 && mech.startsWith(QLatin1String("SCRAM")) && r.chance(0.3)) {
            // a second login in the same process: same account (hence same salt and iteration count), but the server now
            // offers another SCRAM variant (or the same one again)
            static const char *variants[] = { "SCRAM-SHA-1", "SCRAM-SHA-256", "SCRAM-SHA-512", "SCRAM-SHA3-512" };
            const QString second = QString::fromLatin1(variants[r.uniform(4)]);
            k[QStringLiteral("relogin")] = 1;
            s[QStringLiteral("mech2")] = second;
            p.ops.append(mkop(QStringLiteral("disconnect")));
            p.ops.append(mkop(QStringLiteral("pump")));
            p.ops.append(mkop(QStringLiteral("prof"), {}, { s.contains(QStringLiteral("sasl2")) ? QStringLiteral("sasl2") : QStringLiteral("sasl1"), second }));
            p.ops.append(mkop(QStringLiteral("connect")));
            p.ops.append(mkop(QStringLiteral("pump"), { (qint64)r.chance(0.5) }, {}, (quint32)r.next()));
        }
        return p;
    }

    RunResult execute(const Plan &plan, bool verbose) override
    {
        RunResult res;
        Trace tr(verbose);
        {
            SessionWorld w(plan, tr, res);
            const QString mech = plan.sknob(QStringLiteral("mech"));
            const QString token = plan.sknob(QStringLiteral("fastToken"));
            const bool otherSecret = plan.sknob(QStringLiteral("q.account")) == QLatin1String("other_password");
            if (!token.isEmpty()) {
                w.server->fastTokens[otherSecret ? token + QStringLiteral("x") : token] = w.config.user();
            }
            w.createClient(QXmppClient::NoExtensions);
            bool authedWithoutProof = false;
            QObject ctx;
            QObject::connect(w.logger, &QXmppLogger::message, &ctx, [&](QXmppLogger::MessageType, const QString &m) {
                if (m == QLatin1String("Authenticated")) {
                    auto *c = w.server->current();
                    if (c && !c->serverProofDelivered) {
                        authedWithoutProof = true;
                    }
                }
            });
            int sessionsBeforeRelogin = -1;
            for (const auto &op : plan.ops) {
                if (op.kind == QLatin1String("prof")) {
                    sessionsBeforeRelogin = w.connectedSignals;
                    w.server->profile.set(op.str(0), op.str(1));
                } else {
                    w.applyCommon(op);
                }
                w.afterStep();
            }
            if (sessionsBeforeRelogin >= 0) {
                w.probe("second_login_same_account_same_salt");
                if (sessionsBeforeRelogin == 1 && w.connectedSignals != 2 && w.server->conformance.isEmpty()) {
                    w.violation(QStringLiteral("honest_exchange_failed"), QStringLiteral("C06:honest_exchange_did_not_authenticate:SCRAM:second_login"),
                                QStringLiteral("the first login (%1) succeeded; the second login of the same account against the same honest server offering %2 did not").arg(plan.sknob(QStringLiteral("mech")), plan.sknob(QStringLiteral("mech2"))));
                }
            }
            const QString quirk = plan.sknob(QStringLiteral("q.scram")) + plan.sknob(QStringLiteral("q.digest")) + plan.sknob(QStringLiteral("q.sasl"));
            const bool honest = quirk.isEmpty() && !otherSecret;
            const QString family = mech.startsWith(QLatin1String("SCRAM")) ? QStringLiteral("SCRAM") : (mech.startsWith(QLatin1String("HT-")) ? QStringLiteral("HT") : mech);
            // Oracle 1: every client message equals what the independent implementation computes
            for (const auto &c : std::as_const(w.server->conformance)) {
                // the signature names the kind of deviation, never the credentials it was seen with
                QString kind = c.section(QStringLiteral(" for user"), 0, 0).section(QLatin1Char(':'), 0, 1).simplified();
                kind.truncate(70);
                w.violation(QStringLiteral("nonconformant_message"), QStringLiteral("C06:client_message_differs_from_specification:") + kind.replace(QLatin1Char(' '), QLatin1Char('_')),
                            c + QStringLiteral(" (user '%1', mechanism %2)").arg(w.config.user(), mech));
            }
            const bool authed = w.client->isAuthenticated() || w.connectedSignals > 0 || w.clientLog.contains(QStringLiteral("Authenticated"));
            if (honest) {
                if (!authed && w.server->conformance.isEmpty()) {
                    w.violation(QStringLiteral("honest_exchange_failed"), QStringLiteral("C06:honest_exchange_did_not_authenticate:") + family,
                                QStringLiteral("a conforming server holding the same secret did not end up accepting user '%1' via %2").arg(w.config.user(), mech));
                }
                if (authed) {
                    w.probe("honest_exchange_authenticated");
                }
            } else if (otherSecret) {
                w.fault("server_holds_other_secret");
                if (authed && family != QLatin1String("PLAIN") && family != QLatin1String("HT")) {
                    // for SCRAM/DIGEST the server refuses the proof, so a success can only be the client's invention
                    w.violation(QStringLiteral("authenticated_with_other_secret"), QStringLiteral("C06:authenticated_against_server_with_different_secret:") + family, mech);
                }
            } else {
                w.fault(("server_misbehaviour_" + quirk.toLatin1()).constData());
            }
            // Oracle 2: never a successful login unless the server has proved knowledge of the password
            if ((family == QLatin1String("SCRAM") || family == QLatin1String("DIGEST-MD5")) && (authedWithoutProof || (authed && w.server->current() && !w.server->current()->serverProofDelivered && !w.server->conns.isEmpty()))) {
                bool proof = false;
                for (auto *c : w.server->conns) {
                    proof = proof || c->serverProofDelivered;
                }
                if (!proof || authedWithoutProof) {
                    w.violation(QStringLiteral("success_without_server_proof"), QStringLiteral("C06:login_reported_successful_without_server_proof:%1:%2").arg(family, quirk.isEmpty() ? QStringLiteral("honest") : quirk),
                                QStringLiteral("the client reports the %1 login as successful although no correct server signature / rspauth had been delivered to it (server behaviour: %2)").arg(mech, quirk));
                }
            }
            // invalid server-first / challenge must end in an error, not in a session
            static const QStringList mustRefuse = { QStringLiteral("nonce_mismatch"), QStringLiteral("nonce_truncated"), QStringLiteral("iter0"), QStringLiteral("iter_neg"), QStringLiteral("iter_nan"),
                                                    QStringLiteral("no_r"), QStringLiteral("no_s"), QStringLiteral("no_i"), QStringLiteral("empty_salt"), QStringLiteral("wrong_v"), QStringLiteral("wrong_v_prefix_ok"),
                                                    QStringLiteral("error_e"), QStringLiteral("rspauth_wrong"), QStringLiteral("rspauth_missing"), QStringLiteral("no_nonce"), QStringLiteral("qop_noauth") };
            if (mustRefuse.contains(quirk)) {
                if (authed) {
                    w.violation(QStringLiteral("invalid_server_message_accepted"), QStringLiteral("C06:invalid_server_message_accepted:%1:%2").arg(family, quirk),
                                QStringLiteral("server behaviour '%1' must end in an authentication error, but the client reports itself authenticated").arg(quirk));
                } else {
                    w.probe("invalid_server_message_refused");
                }
            }
            res.caseKey = QStringLiteral("%1|%2|%3|%4|%5|%6|%7").arg(mech, w.config.user(), w.config.password()).arg(plan.knob(QStringLiteral("scramIter"))).arg(plan.knob(QStringLiteral("saltLen"))).arg(quirk).arg(otherSecret);
            res.nontrivial = true;
            w.client->disconnectFromServer();
            w.pump(nullptr);
        }
        res.traceHash = tr.hash.value();
        res.trace = tr.lines;
        return res;
    }
    bool removable(const Plan &, int) override { return false; }
    QVector<Plan> simplerKnobs(const Plan &p) override
    {
        QVector<Plan> out;
        if (p.sknob(QStringLiteral("user")) != QLatin1String("alice")) {
            Plan q = p;
            q.sknobs[QStringLiteral("user")] = QStringLiteral("alice");
            out << q;
        }
        if (p.sknob(QStringLiteral("password")) != QLatin1String("pencil")) {
            Plan q = p;
            q.sknobs[QStringLiteral("password")] = QStringLiteral("pencil");
            if (q.sknobs.contains(QStringLiteral("serverPassword"))) {
                q.sknobs[QStringLiteral("serverPassword")] = QStringLiteral("pencilx");
            }
            out << q;
        }
        if (p.knob(QStringLiteral("scramIter")) > 1) {
            Plan q = p;
            q.knobs[QStringLiteral("scramIter")] = 1;
            out << q;
        }
        if (p.knob(QStringLiteral("saltLen")) > 1) {
            Plan q = p;
            q.knobs[QStringLiteral("saltLen")] = 1;
            out << q;
        }
        return out;
    }
};

static EngineRegistrar reg6(new C06Engine);

}  // namespace
