// C18 — automatic trust management: only an authenticated key's holder can move trust, within scope.
#include "core/engine.h"

#include "QXmppAtmManager.h"
#include "QXmppAtmTrustMemoryStorage.h"
#include "QXmppClient.h"
#include "QXmppConfiguration.h"
#include "QXmppE2eeMetadata.h"
#include "QXmppMessage.h"
#include "QXmppPromise.h"
#include "QXmppTask.h"
#include "QXmppTrustMessageElement.h"
#include "QXmppTrustMessageKeyOwner.h"

#include <functional>

using namespace sim;
using QXmpp::TrustLevel;

namespace {

static const QString kEnc = QStringLiteral("urn:xmpp:omemo:2");
static const char *kAccounts[] = { "alice@example.org", "bob@example.org", "carol@example.net" };
// key ids are globally unique; the first character names the owner
static const char *kKeys[3][4] = { { "a1", "a2", "a3", "a4" }, { "b1", "b2", "b3", "a4" }, { "c1", "c2", "c3", "c4" } };

// wraps the real memory storage; every returned task completes when the scheduler says so
class DeferredStorage : public QXmppAtmTrustMemoryStorage
{
public:
    QList<std::function<void()>> pending;
    bool deferring = true;
    int calls = 0;

    template<typename T>
    QXmppTask<T> defer(QXmppTask<T> ready)
    {
        ++calls;
        if (!deferring) {
            return ready;
        }
        QXmppPromise<T> p;
        if constexpr (std::is_void_v<T>) {
            pending.append([p]() mutable { p.finish(); });
        } else {
            auto value = std::make_shared<T>(ready.takeResult());
            pending.append([p, value]() mutable { p.finish(std::move(*value)); });
        }
        return p.task();
    }
    using Base = QXmppAtmTrustMemoryStorage;
    QXmppTask<void> addKeysForPostponedTrustDecisions(const QString &e, const QByteArray &s, const QList<QXmppTrustMessageKeyOwner> &o) override { return defer(Base::addKeysForPostponedTrustDecisions(e, s, o)); }
    QXmppTask<void> removeKeysForPostponedTrustDecisions(const QString &e, const QList<QByteArray> &a, const QList<QByteArray> &d) override { return defer(Base::removeKeysForPostponedTrustDecisions(e, a, d)); }
    QXmppTask<void> removeKeysForPostponedTrustDecisions(const QString &e, const QList<QByteArray> &s) override { return defer(Base::removeKeysForPostponedTrustDecisions(e, s)); }
    QXmppTask<void> removeKeysForPostponedTrustDecisions(const QString &e) override { return defer(Base::removeKeysForPostponedTrustDecisions(e)); }
    QXmppTask<QHash<bool, QMultiHash<QString, QByteArray>>> keysForPostponedTrustDecisions(const QString &e, const QList<QByteArray> &s = {}) override { return defer(Base::keysForPostponedTrustDecisions(e, s)); }
    QXmppTask<QXmpp::TrustSecurityPolicy> securityPolicy(const QString &e) override { return defer(Base::securityPolicy(e)); }
    QXmppTask<QHash<TrustLevel, QMultiHash<QString, QByteArray>>> keys(const QString &e, QXmpp::TrustLevels l = {}) override { return defer(Base::keys(e, l)); }
    QXmppTask<QHash<QString, QMultiHash<QString, QByteArray>>> setTrustLevel(const QString &e, const QMultiHash<QString, QByteArray> &k, TrustLevel l) override { return defer(Base::setTrustLevel(e, k, l)); }
    QXmppTask<QHash<QString, QMultiHash<QString, QByteArray>>> setTrustLevel(const QString &e, const QList<QString> &o, TrustLevel a, TrustLevel b) override { return defer(Base::setTrustLevel(e, o, a, b)); }
    QXmppTask<TrustLevel> trustLevel(const QString &e, const QString &o, const QByteArray &k) override { return defer(Base::trustLevel(e, o, k)); }

    // synchronous observation (never deferred)
    TrustLevel levelNow(const QString &owner, const QByteArray &key) { return Base::trustLevel(kEnc, owner, key).takeResult(); }
    QHash<bool, QMultiHash<QString, QByteArray>> postponedNow() { return Base::keysForPostponedTrustDecisions(kEnc, {}).takeResult(); }
};

struct Postponed {
    QByteArray senderKey;
    QString owner;
    QByteArray key;
    bool trust;
    bool operator==(const Postponed &o) const { return senderKey == o.senderKey && owner == o.owner && key == o.key; }
};

struct AtmModel {
    QMap<QPair<QString, QByteArray>, TrustLevel> level;
    QList<Postponed> postponed;
    bool toakafa = false;
    QString ownBare, ownFull;

    TrustLevel get(const QString &o, const QByteArray &k) const { return level.value({ o, k }, TrustLevel::Undecided); }

    void authenticate(const QList<QPair<QString, QByteArray>> &keys)
    {
        if (keys.isEmpty()) {
            return;
        }
        QSet<QString> owners;
        QList<QByteArray> ids;
        for (const auto &k : keys) {
            level[k] = TrustLevel::Authenticated;
            owners.insert(k.first);
            ids.append(k.second);
        }
        if (toakafa) {
            for (auto it = level.begin(); it != level.end(); ++it) {
                if (owners.contains(it.key().first) && it.value() == TrustLevel::AutomaticallyTrusted) {
                    it.value() = TrustLevel::AutomaticallyDistrusted;
                }
            }
        }
        // postponed decisions of the senders whose keys have just been authenticated take effect now
        QList<QPair<QString, QByteArray>> auth, dis;
        for (const auto &p : std::as_const(postponed)) {
            if (ids.contains(p.senderKey)) {
                (p.trust ? auth : dis).append({ p.owner, p.key });
            }
        }
        QList<QByteArray> authIds, disIds;
        for (const auto &k : auth) {
            authIds.append(k.second);
        }
        for (const auto &k : dis) {
            disIds.append(k.second);
        }
        // the stored decisions for these target keys are consumed (whoever sent them; library behaviour, see DESIGN.md)
        for (int i = postponed.size() - 1; i >= 0; --i) {
            const auto &p = postponed[i];
            if ((p.trust && authIds.contains(p.key)) || (!p.trust && disIds.contains(p.key))) {
                postponed.removeAt(i);
            }
        }
        authenticate(auth);
        distrust(dis);
    }
    void distrust(const QList<QPair<QString, QByteArray>> &keys)
    {
        if (keys.isEmpty()) {
            return;
        }
        QList<QByteArray> ids;
        for (const auto &k : keys) {
            level[k] = TrustLevel::ManuallyDistrusted;
            ids.append(k.second);
        }
        // decisions of senders whose keys are distrusted are discarded and never applied
        for (int i = postponed.size() - 1; i >= 0; --i) {
            if (ids.contains(postponed[i].senderKey)) {
                postponed.removeAt(i);
            }
        }
    }
};

struct TrustMsg {
    QString senderFull;
    QByteArray senderKey;
    struct Owner {
        QString jid;
        QList<QByteArray> trusted, distrusted;
    };
    QList<Owner> owners;
};

class C18Engine : public Engine
{
public:
    QString property() const override { return QStringLiteral("C18"); }
    QString describe() const override
    {
        return QStringLiteral("real: QXmppAtmManager, QXmppTrustManager, QXmppAtmTrustMemoryStorage (behind DeferredStorage), QXmppClient::messageReceived entry point, trust message element codec objects ; "
                              "stub: completion of every storage call is a scheduler decision (immediate, deferred, and in concurrent mode reordered) ; oracle: XEP-0450 reference model (sequential: refinement; concurrent: safety frame)");
    }

    Plan generate(quint64 seed, const QString &tier) override
    {
        Plan p;
        Prng r(derive(seed, "c18"));
        p.knobs[QStringLiteral("toakafa")] = r.chance(0.5);
        p.knobs[QStringLiteral("mode")] = r.weighted({ 35, 35, 30 });   // 0 immediate completions, 1 deferred (sequential), 2 concurrent
        // initial trust state
        for (int a = 0; a < 3; ++a) {
            for (int k = 0; k < 4; ++k) {
                p.knobs[QStringLiteral("init_%1_%2").arg(a).arg(k)] = r.weighted({ 45, 25, 10, 12, 8 });   // undecided, auto-trusted, auto-distrusted, authenticated, manually distrusted
            }
        }
        const int n = (int)r.range(2, tier == QLatin1String("thorough") ? 25 : 14);
        for (int i = 0; i < n; ++i) {
            quint32 salt = (quint32)r.next();
            if (r.chance(0.35)) {
                // manual decision: owner, bitmask of keys to authenticate, bitmask to distrust
                qint64 auth = r.uniform(16), dis = r.uniform(16) & ~auth;
                if (r.chance(0.6)) {
                    auth = 1 << r.uniform(4);
                    dis = r.chance(0.3) ? (1 << r.uniform(4)) & ~auth : 0;
                }
                p.ops.append(mkop(QStringLiteral("manual"), { (qint64)r.uniform(3), auth, dis }, {}, salt));
            } else {
                // trust message: sender account, sender key index (4 = no key), sender resource variant (0 other device, 1 this device itself),
                // then per owner: trusted mask, distrusted mask
                QVector<qint64> a { (qint64)r.uniform(3), r.weighted({ 24, 24, 24, 24, 4 }), r.weighted({ 90, 10 }) };
                for (int o = 0; o < 3; ++o) {
                    qint64 t = r.chance(0.55) ? r.uniform(16) : 0;
                    qint64 d = r.chance(0.35) ? (r.uniform(16) & ~t) : 0;
                    a << t << d;
                }
                a << (qint64)r.uniform(6);   // owner order permutation
                p.ops.append(mkop(QStringLiteral("msg"), a, {}, salt));
            }
            if (r.chance(0.3)) {
                p.ops.append(mkop(QStringLiteral("complete"), { (qint64)r.uniform(8) }, {}, (quint32)r.next()));
            }
        }
        return p;
    }

    RunResult execute(const Plan &plan, bool verbose) override
    {
        RunResult res;
        Trace tr(verbose);
        {
            const int mode = (int)plan.knob(QStringLiteral("mode"));
            QXmppClient client(QXmppClient::NoExtensions);
            QXmppConfiguration cfg;
            cfg.setJid(QStringLiteral("alice@example.org/dev1"));
            client.configuration() = cfg;
            DeferredStorage storage;
            storage.deferring = false;
            AtmModel model;
            model.toakafa = plan.knob(QStringLiteral("toakafa"));
            model.ownBare = QStringLiteral("alice@example.org");
            model.ownFull = QStringLiteral("alice@example.org/dev1");
            storage.QXmppTrustMemoryStorage::setSecurityPolicy(kEnc, model.toakafa ? QXmpp::Toakafa : QXmpp::NoSecurityPolicy);
            static const TrustLevel initLevels[] = { TrustLevel::Undecided, TrustLevel::AutomaticallyTrusted, TrustLevel::AutomaticallyDistrusted, TrustLevel::Authenticated, TrustLevel::ManuallyDistrusted };
            for (int a = 0; a < 3; ++a) {
                for (int k = 0; k < 4; ++k) {
                    const int lv = (int)plan.knob(QStringLiteral("init_%1_%2").arg(a).arg(k));
                    if (lv != 0) {
                        storage.QXmppTrustMemoryStorage::addKeys(kEnc, QString::fromLatin1(kAccounts[a]), { QByteArray(kKeys[a][k]) }, initLevels[lv]);
                        model.level[{ QString::fromLatin1(kAccounts[a]), QByteArray(kKeys[a][k]) }] = initLevels[lv];
                    }
                }
            }
            auto *atm = client.addNewExtension<QXmppAtmManager>(&storage);
            storage.deferring = mode != 0;
            QObject ctx;

            // authority records for the concurrent safety frame
            QSet<QPair<QString, QByteArray>> mayAuth, mayDistrust;   // (owner,key) that some authorised cause may have moved
            QSet<QByteArray> everAuthenticated;                       // key ids that were Authenticated at some point
            bool ranPostponed = false, scopeViolatingMessage = false;
            int opsInFlight = 0;

            auto snapshotAuth = [&] {
                for (int a = 0; a < 3; ++a) {
                    for (int k = 0; k < 4; ++k) {
                        if (storage.levelNow(QString::fromLatin1(kAccounts[a]), kKeys[a][k]) == TrustLevel::Authenticated) {
                            everAuthenticated.insert(kKeys[a][k]);
                        }
                    }
                }
            };
            auto completeOne = [&](int k) {
                if (storage.pending.isEmpty()) {
                    return false;
                }
                auto f = storage.pending.takeAt(k % storage.pending.size());
                res.faults[QStringLiteral("storage_completion_deferred")]++;
                f();
                settle();
                snapshotAuth();
                return true;
            };
            auto completeAll = [&] {
                int guard = 0;
                while (!storage.pending.isEmpty() && guard++ < 5000) {
                    completeOne(0);
                }
            };
            auto compareWithModel = [&](const QString &after) {
                for (int a = 0; a < 3; ++a) {
                    for (int k = 0; k < 4; ++k) {
                        const QString o = QString::fromLatin1(kAccounts[a]);
                        const QByteArray key(kKeys[a][k]);
                        const TrustLevel got = storage.levelNow(o, key), want = model.get(o, key);
                        if (got != want) {
                            QString kind = QStringLiteral("level_differs");
                            if (got == TrustLevel::Authenticated && want != TrustLevel::Authenticated) {
                                kind = QStringLiteral("key_authenticated_without_authority");
                            } else if (got == TrustLevel::ManuallyDistrusted && want != TrustLevel::ManuallyDistrusted) {
                                kind = QStringLiteral("key_distrusted_without_authority");
                            } else if (want == TrustLevel::Authenticated || want == TrustLevel::ManuallyDistrusted) {
                                kind = QStringLiteral("authorised_decision_not_applied");
                            }
                            violation(res, tr, QStringLiteral("trust_differs"), QStringLiteral("C18:%1:after_%2").arg(kind, after),
                                      QStringLiteral("(%1, %2): stored level %3, reference model %4").arg(o, QString::fromLatin1(key)).arg((int)got).arg((int)want));
                        }
                    }
                }
                // postponed sets
                QList<Postponed> got;
                const auto st = storage.postponedNow();
                Q_UNUSED(st);
                int gotCount = 0;
                for (auto it = st.begin(); it != st.end(); ++it) {
                    gotCount += it.value().size();
                }
                // the storage API does not expose the sender key of each entry in bulk: compare per sender key
                for (int a = 0; a < 3; ++a) {
                    for (int k = 0; k < 4; ++k) {
                        const QByteArray sk(kKeys[a][k]);
                        const auto per = storage.QXmppAtmTrustMemoryStorage::keysForPostponedTrustDecisions(kEnc, { sk }).takeResult();
                        QSet<QString> gotSet, wantSet;
                        for (auto it = per.begin(); it != per.end(); ++it) {
                            for (auto jt = it.value().begin(); jt != it.value().end(); ++jt) {
                                gotSet.insert(QStringLiteral("%1|%2|%3").arg(jt.key(), QString::fromLatin1(jt.value())).arg(it.key()));
                            }
                        }
                        for (const auto &p : std::as_const(model.postponed)) {
                            if (p.senderKey == sk) {
                                wantSet.insert(QStringLiteral("%1|%2|%3").arg(p.owner, QString::fromLatin1(p.key)).arg(p.trust));
                            }
                        }
                        if (gotSet != wantSet) {
                            violation(res, tr, QStringLiteral("postponed_differs"), QStringLiteral("C18:held_back_decisions_differ:after_%1").arg(after),
                                      QStringLiteral("decisions held back for sender key %1: stored {%2}, reference model {%3}").arg(QString::fromLatin1(sk), QStringList(gotSet.values()).join(QLatin1Char(' ')), QStringList(wantSet.values()).join(QLatin1Char(' '))));
                        }
                    }
                }
            };

            for (const auto &op : plan.ops) {
                const QString &k = op.kind;
                if (k == QLatin1String("manual")) {
                    const QString owner = QString::fromLatin1(kAccounts[op.arg(0) % 3]);
                    QList<QByteArray> auth, dis;
                    for (int i = 0; i < 4; ++i) {
                        if (op.arg(1) & (1 << i)) {
                            auth << kKeys[op.arg(0) % 3][i];
                        }
                        if (op.arg(2) & (1 << i)) {
                            dis << kKeys[op.arg(0) % 3][i];
                        }
                    }
                    tr.log(QStringLiteral("app: makeTrustDecisions(%1, auth=[%2], distrust=[%3])").arg(owner, QString::fromLatin1(auth.join(',')), QString::fromLatin1(dis.join(','))));
                    for (const auto &x : auth) {
                        mayAuth.insert({ owner, x });
                    }
                    for (const auto &x : dis) {
                        mayDistrust.insert({ owner, x });
                    }
                    ++opsInFlight;
                    atm->makeTrustDecisions(kEnc, owner, auth, dis).then(&ctx, [&] { --opsInFlight; });
                    // model (sequential semantics)
                    QList<QPair<QString, QByteArray>> a2, d2;
                    for (const auto &x : auth) {
                        if (model.get(owner, x) != TrustLevel::Authenticated) {
                            a2.append({ owner, x });
                        }
                    }
                    for (const auto &x : dis) {
                        if (model.get(owner, x) != TrustLevel::ManuallyDistrusted) {
                            d2.append({ owner, x });
                        }
                    }
                    const int before = model.postponed.size();
                    model.authenticate(a2);
                    model.distrust(d2);
                    if (model.postponed.size() < before) {
                        ranPostponed = true;
                        res.probes[QStringLiteral("held_back_decisions_released_or_discarded")]++;
                    }
                } else if (k == QLatin1String("msg")) {
                    TrustMsg m;
                    const int sa = (int)(op.arg(0) % 3);
                    const QString senderBare = QString::fromLatin1(kAccounts[sa]);
                    const bool fromSelf = op.arg(2) == 1 && sa == 0;
                    m.senderFull = fromSelf ? model.ownFull : senderBare + QStringLiteral("/dev9");
                    m.senderKey = op.arg(1) < 4 ? QByteArray(kKeys[sa][op.arg(1)]) : QByteArray();
                    static const int perms[6][3] = { { 0, 1, 2 }, { 0, 2, 1 }, { 1, 0, 2 }, { 1, 2, 0 }, { 2, 0, 1 }, { 2, 1, 0 } };
                    for (int oi = 0; oi < 3; ++oi) {
                        const int o = perms[op.arg(9) % 6][oi];
                        TrustMsg::Owner ow;
                        ow.jid = QString::fromLatin1(kAccounts[o]);
                        for (int i = 0; i < 4; ++i) {
                            if (op.arg(3 + 2 * o) & (1 << i)) {
                                ow.trusted << kKeys[o][i];
                            }
                            if (op.arg(4 + 2 * o) & (1 << i)) {
                                ow.distrusted << kKeys[o][i];
                            }
                        }
                        if (!ow.trusted.isEmpty() || !ow.distrusted.isEmpty()) {
                            m.owners << ow;
                        }
                    }
                    // build the message the way it reaches an application: QXmppClient::messageReceived
                    QXmppTrustMessageElement el;
                    el.setUsage(QStringLiteral("urn:xmpp:atm:1"));
                    el.setEncryption(kEnc);
                    QList<QXmppTrustMessageKeyOwner> kos;
                    QStringList desc;
                    for (const auto &ow : std::as_const(m.owners)) {
                        QXmppTrustMessageKeyOwner ko;
                        ko.setJid(ow.jid);
                        ko.setTrustedKeys(ow.trusted);
                        ko.setDistrustedKeys(ow.distrusted);
                        kos << ko;
                        desc << QStringLiteral("%1:+[%2]-[%3]").arg(ow.jid, QString::fromLatin1(ow.trusted.join(',')), QString::fromLatin1(ow.distrusted.join(',')));
                    }
                    el.setKeyOwners(kos);
                    QXmppMessage msg;
                    msg.setFrom(m.senderFull);
                    msg.setTo(model.ownFull);
                    msg.setTrustMessageElement(el);
                    if (!m.senderKey.isEmpty()) {
                        QXmppE2eeMetadata meta;
                        meta.setSenderKey(m.senderKey);
                        msg.setE2eeMetadata(meta);
                    }
                    tr.log(QStringLiteral("net: trust message from %1 key %2: %3").arg(m.senderFull, QString::fromLatin1(m.senderKey), desc.join(QLatin1Char(' '))));
                    // model
                    const bool own = senderBare == model.ownBare;
                    if (fromSelf) {
                        res.probes[QStringLiteral("message_from_this_device_itself")]++;
                    } else {
                        const bool senderAuth = model.get(senderBare, m.senderKey) == TrustLevel::Authenticated;
                        QList<QPair<QString, QByteArray>> a2, d2;
                        for (const auto &ow : std::as_const(m.owners)) {
                            const bool inScope = own || senderBare == ow.jid;
                            if (!inScope) {
                                scopeViolatingMessage = true;
                                res.faults[QStringLiteral("decision_outside_sender_scope")]++;
                                continue;
                            }
                            if (senderAuth) {
                                for (const auto &x : ow.trusted) {
                                    a2.append({ ow.jid, x });
                                    mayAuth.insert({ ow.jid, x });
                                }
                                for (const auto &x : ow.distrusted) {
                                    d2.append({ ow.jid, x });
                                    mayDistrust.insert({ ow.jid, x });
                                }
                            } else {
                                res.faults[QStringLiteral("decision_from_unauthenticated_sender_key")]++;
                                for (const auto &x : ow.trusted) {
                                    Postponed p { m.senderKey, ow.jid, x, true };
                                    int i = model.postponed.indexOf(p);
                                    if (i >= 0) {
                                        model.postponed[i].trust = true;
                                    } else {
                                        model.postponed.append(p);
                                    }
                                    mayAuth.insert({ ow.jid, x });   // may legitimately take effect later
                                }
                                for (const auto &x : ow.distrusted) {
                                    Postponed p { m.senderKey, ow.jid, x, false };
                                    int i = model.postponed.indexOf(p);
                                    if (i >= 0) {
                                        model.postponed[i].trust = false;
                                    } else {
                                        model.postponed.append(p);
                                    }
                                    mayDistrust.insert({ ow.jid, x });
                                }
                            }
                        }
                        const int before = model.postponed.size();
                        model.authenticate(a2);
                        model.distrust(d2);
                        if (model.postponed.size() < before) {
                            ranPostponed = true;
                        }
                    }
                    Q_EMIT client.messageReceived(msg);
                } else if (k == QLatin1String("complete")) {
                    if (mode == 2) {
                        completeOne((int)op.arg(0));
                    }
                }
                settle();
                snapshotAuth();
                if (mode != 2) {
                    completeAll();
                    compareWithModel(k);
                } else {
                    // concurrent: safety frame only
                    for (int a = 0; a < 3; ++a) {
                        for (int kk = 0; kk < 4; ++kk) {
                            const QString o = QString::fromLatin1(kAccounts[a]);
                            const QByteArray key(kKeys[a][kk]);
                            const TrustLevel got = storage.levelNow(o, key);
                            const TrustLevel init = initLevels[plan.knob(QStringLiteral("init_%1_%2").arg(a).arg(kk))];
                            if (got == TrustLevel::Authenticated && init != TrustLevel::Authenticated && !mayAuth.contains({ o, key })) {
                                violation(res, tr, QStringLiteral("frame"), QStringLiteral("C18:key_authenticated_without_authority:concurrent"),
                                          QStringLiteral("(%1, %2) is Authenticated but no operation issued so far had the authority to cause that").arg(o, QString::fromLatin1(key)));
                            }
                            if (got == TrustLevel::ManuallyDistrusted && init != TrustLevel::ManuallyDistrusted && !mayDistrust.contains({ o, key })) {
                                violation(res, tr, QStringLiteral("frame"), QStringLiteral("C18:key_distrusted_without_authority:concurrent"),
                                          QStringLiteral("(%1, %2) is ManuallyDistrusted but no operation issued so far had the authority to cause that").arg(o, QString::fromLatin1(key)));
                            }
                        }
                    }
                }
                res.steps++;
            }
            completeAll();
            settle();
            if (mode != 2) {
                compareWithModel(QStringLiteral("end"));
            }
            res.probes[QStringLiteral("storage_calls")] = storage.calls;
            res.nontrivial = ranPostponed || scopeViolatingMessage;
            res.caseKey.clear();
        }
        settle();
        res.traceHash = tr.hash.value();
        res.trace = tr.lines;
        return res;
    }

    static void violation(RunResult &res, Trace &tr, const QString &cls, const QString &sig, const QString &detail)
    {
        for (const auto &v : res.violations) {
            if (v.signature == sig) {
                return;
            }
        }
        tr.log(QStringLiteral("VIOLATION ") + sig);
        res.violations.append(Violation { cls, sig, detail, res.steps });
    }

    QVector<Plan> simplerKnobs(const Plan &p) override
    {
        QVector<Plan> out;
        if (p.knob(QStringLiteral("mode")) != 0) {
            Plan q = p;
            q.knobs[QStringLiteral("mode")] = 0;
            out << q;
        }
        for (auto it = p.knobs.begin(); it != p.knobs.end(); ++it) {
            if (it.key().startsWith(QLatin1String("init_")) && it.value() != 0) {
                Plan q = p;
                q.knobs[it.key()] = 0;
                out << q;
            }
        }
        return out;
    }
    QVector<Op> simplerOps(const Op &op) override
    {
        QVector<Op> out;
        if (op.kind == QLatin1String("msg")) {
            for (int i = 3; i <= 8; ++i) {
                if (op.arg(i) != 0) {
                    Op o = op;
                    o.a[i] = 0;
                    out << o;
                    // single bits
                    for (int b = 0; b < 4; ++b) {
                        if ((op.arg(i) & (1 << b)) && op.arg(i) != (1 << b)) {
                            Op o2 = op;
                            o2.a[i] = 1 << b;
                            out << o2;
                        }
                    }
                }
            }
        }
        return out;
    }
};

static EngineRegistrar reg(new C18Engine);

}  // namespace
