// C13 — a task's continuation runs exactly once, and never after its context has died.
// Three cooperating actors under the scheduler: producer (promise copies, finish), consumer (task copies, then, takeResult),
// lifetime (delete / deleteLater of contexts, dropping handles), plus re-entrant behaviours chosen per continuation.
#include "core/engine.h"

#include "QXmppPromise.h"
#include "QXmppTask.h"

#include <QPointer>
#include <memory>
#include <optional>

using namespace sim;

namespace {

static int g_trackedLive = 0;
static int g_captureLive = 0;

struct Tracked {
    int v = 0;
    bool movedFrom = false;
    explicit Tracked(int v) : v(v) { ++g_trackedLive; }
    Tracked(const Tracked &o) : v(o.v), movedFrom(o.movedFrom) { ++g_trackedLive; }
    Tracked(Tracked &&o) noexcept : v(o.v), movedFrom(o.movedFrom)
    {
        ++g_trackedLive;
        o.movedFrom = true;
        o.v = -777;
    }
    Tracked &operator=(const Tracked &) = default;
    Tracked &operator=(Tracked &&o) noexcept
    {
        v = o.v;
        movedFrom = o.movedFrom;
        o.movedFrom = true;
        o.v = -777;
        return *this;
    }
    ~Tracked() { --g_trackedLive; }
};

// something that is not T but converts to the move-only T (and owns its value until it does)
struct Boxed {
    std::unique_ptr<Tracked> p;
    operator std::unique_ptr<Tracked>() && { return std::move(p); }
};

// lives inside a continuation's closure: counts closures that have not been released
struct CaptureToken {
    CaptureToken() { ++g_captureLive; }
    CaptureToken(const CaptureToken &) { ++g_captureLive; }
    CaptureToken(CaptureToken &&) noexcept { ++g_captureLive; }
    ~CaptureToken() { --g_captureLive; }
};

template<typename T>
struct Traits;
template<>
struct Traits<void> {
    static constexpr const char *name = "void";
};
template<>
struct Traits<Tracked> {
    static constexpr const char *name = "copyable";
    static Tracked make(int v) { return Tracked(v); }
    static int value(const Tracked &t) { return t.movedFrom ? -778 : t.v; }
};
template<>
struct Traits<std::unique_ptr<Tracked>> {
    static constexpr const char *name = "move_only";
    static std::unique_ptr<Tracked> make(int v) { return std::make_unique<Tracked>(v); }
    static int value(const std::unique_ptr<Tracked> &t) { return t ? (t->movedFrom ? -778 : t->v) : -779; }
};

struct Cont {
    int no;
    int pair;
    int ctx;
    int behaviour;
    QPointer<QObject> ctxObj;   // the context object it was registered with (slots can be re-populated)
    int fired = 0;
    int seen = -1;
    bool firedWithDeadContext = false;
    // model
    int expectFires = -1;   // decided by the model when the outcome is determined
    int expectValue = -1;
    bool capturesOwnTask = false;
    bool pendingAtEnd = false;
};

struct ModelPair {
    bool finished = false;
    bool hasValue = false;   // stored result still there (non-void)
    int value = -1;
    int pendingCont = -1;    // index into conts, -1 none
};

template<typename T>
class Runner
{
public:
    static constexpr bool isVoid = std::is_void_v<T>;
    const Plan &plan;
    Trace &tr;
    RunResult &res;
    int nPairs;
    std::vector<std::vector<QXmppPromise<T>>> promises;   // handles per pair
    std::vector<std::vector<QXmppTask<T>>> tasks;
    std::vector<std::optional<QXmppPromise<T>>> keeper;    // one promise handle per pair kept until the end
    std::vector<ModelPair> model;
    std::vector<QPointer<QObject>> ctx;
    std::vector<std::shared_ptr<Cont>> conts;
    int valueCounter = 100;
    int step = 0;
    bool reentered = false, ctxDiedBeforeFinish = false;
    bool abandon = false;
    bool convertingFinish = false;

    Runner(const Plan &p, Trace &t, RunResult &r) : plan(p), tr(t), res(r)
    {
        nPairs = (int)std::max<qint64>(1, std::min<qint64>(3, plan.knob(QStringLiteral("pairs"), 2)));
        abandon = plan.knob(QStringLiteral("abandon")) == 1;
        convertingFinish = plan.knob(QStringLiteral("convFinish")) == 1;
        promises.resize(nPairs);
        tasks.resize(nPairs);
        keeper.resize(nPairs);
        model.resize(nPairs);
        for (int i = 0; i < nPairs; ++i) {
            keeper[i].emplace();
            tasks[i].push_back(keeper[i]->task());
        }
        for (int i = 0; i < 3; ++i) {
            ctx.push_back(new QObject);
        }
    }

    void violation(const QString &cls, const QString &sig, const QString &detail)
    {
        for (const auto &v : res.violations) {
            if (v.signature == sig) {
                return;
            }
        }
        tr.log(QStringLiteral("VIOLATION ") + sig);
        res.violations.append(Violation { cls, sig, detail, step });
    }

    bool ctxAlive(int c) const { return !ctx[c].isNull(); }

    // ---- model transitions
    void modelDecide(int contIdx, int fires, int value)
    {
        auto &c = *conts[contIdx];
        c.expectFires = fires;
        c.expectValue = value;
    }

    void doFinish(int i)
    {
        if (model[i].finished) {
            return;
        }
        const int v = ++valueCounter;
        // model
        model[i].finished = true;
        const int pc = model[i].pendingCont;
        if (pc >= 0) {
            const bool alive = !conts[pc]->ctxObj.isNull();
            modelDecide(pc, alive ? 1 : 0, v);
            if (!alive) {
                ctxDiedBeforeFinish = true;
                res.probes[QStringLiteral("finish_with_dead_context")]++;
            }
            model[i].pendingCont = -1;
            model[i].hasValue = false;
        } else {
            model[i].hasValue = !isVoid;
            model[i].value = v;
        }
        tr.log(QStringLiteral("producer: finish pair %1 with %2").arg(i).arg(v));
        auto &p = promises[i].empty() ? *keeper[i] : promises[i].back();
        if constexpr (isVoid) {
            p.finish();
        } else if (convertingFinish) {
            // the converting overload finish(U &&) with U != T (what finish(QXmppError{...}) on a variant-valued promise uses)
            if constexpr (std::is_same_v<T, Tracked>) {
                int raw = v;
                p.finish(std::move(raw));
            } else {
                Boxed raw { std::make_unique<Tracked>(v) };   // owns its value, converts to T on demand
                p.finish(std::move(raw));
            }
        } else {
            p.finish(Traits<T>::make(v));
        }
    }

    void doThen(int i, int c, int behaviour, int other)
    {
        if (!ctxAlive(c) || tasks[i].empty()) {
            return;
        }
        auto cont = std::make_shared<Cont>();
        cont->no = (int)conts.size();
        cont->pair = i;
        cont->ctx = c;
        cont->behaviour = behaviour;
        cont->capturesOwnTask = behaviour == 4;
        cont->ctxObj = ctx[c];
        conts.push_back(cont);
        const int idx = cont->no;
        // model
        if (model[i].finished) {
            if (isVoid) {
                modelDecide(idx, 1, -1);
            } else if (model[i].hasValue) {
                modelDecide(idx, 1, model[i].value);
                model[i].hasValue = false;
            } else {
                modelDecide(idx, 0, -1);   // the value has been taken already: documented single-consumer semantics
            }
        } else {
            if (model[i].pendingCont >= 0) {
                modelDecide(model[i].pendingCont, 0, -1);   // replaced by a later continuation
                res.probes[QStringLiteral("continuation_replaced")]++;
            }
            model[i].pendingCont = idx;
        }
        tr.log(QStringLiteral("consumer: then #%1 on pair %2 ctx %3 behaviour %4").arg(idx).arg(i).arg(c).arg(behaviour));
        CaptureToken token;
        std::optional<QXmppTask<T>> selfCopy;
        if (behaviour == 4) {
            selfCopy = tasks[i].back();
        }
        QObject *ctxObj = ctx[c];
        auto body = [this, cont, token, selfCopy, other]() {
            cont->fired++;
            if (cont->ctxObj.isNull()) {
                cont->firedWithDeadContext = true;
            }
            tr.log(QStringLiteral("continuation #%1 runs").arg(cont->no));
            // re-entrant behaviours
            switch (cont->behaviour) {
            case 1:
                reentered = true;
                doThen(other % nPairs, cont->ctx, 0, 0);
                break;
            case 2:
                reentered = true;
                tasks[cont->pair].clear();
                promises[cont->pair].clear();
                break;
            case 3:
                reentered = true;
                if (!cont->ctxObj.isNull()) {
                    delete cont->ctxObj.data();
                }
                break;
            case 5:
                reentered = true;
                doFinish(other % nPairs);
                break;
            default:
                break;
            }
        };
        if constexpr (isVoid) {
            tasks[i].back().then(ctxObj, [body]() mutable { body(); });
        } else {
            tasks[i].back().then(ctxObj, [body, cont](T &&value) mutable {
                T taken = std::move(value);
                cont->seen = Traits<T>::value(taken);
                body();
            });
        }
    }

    void run()
    {
        for (const auto &op : plan.ops) {
            const QString &k = op.kind;
            const int i = (int)(op.arg(0) % nPairs);
            if (k == QLatin1String("pcopy")) {
                promises[i].push_back(promises[i].empty() ? *keeper[i] : promises[i].back());
            } else if (k == QLatin1String("pdrop")) {
                if (!promises[i].empty()) {
                    promises[i].pop_back();
                }
            } else if (k == QLatin1String("ptask")) {
                tasks[i].push_back(keeper[i]->task());
            } else if (k == QLatin1String("tcopy")) {
                if (!tasks[i].empty()) {
                    tasks[i].push_back(tasks[i].back());
                }
            } else if (k == QLatin1String("tdrop")) {
                if (tasks[i].size() > 1) {
                    tasks[i].pop_back();
                }
            } else if (k == QLatin1String("then")) {
                doThen(i, (int)(op.arg(1) % 3), (int)op.arg(2), (int)op.arg(3));
            } else if (k == QLatin1String("finish")) {
                doFinish(i);
            } else if (k == QLatin1String("take")) {
                if constexpr (!isVoid) {
                    if (model[i].finished && model[i].hasValue && !tasks[i].empty()) {
                        T v = tasks[i].back().takeResult();
                        const int got = Traits<T>::value(v);
                        if (got != model[i].value) {
                            violation(QStringLiteral("wrong_value"), QStringLiteral("C13:takeResult_wrong_value:") + QLatin1String(Traits<T>::name),
                                      QStringLiteral("takeResult() of pair %1 gave %2, the promise was finished with %3").arg(i).arg(got).arg(model[i].value));
                        }
                        model[i].hasValue = false;
                    }
                }
            } else if (k == QLatin1String("delctx")) {
                const int c = (int)(op.arg(0) % 3);
                if (ctxAlive(c)) {
                    tr.log(QStringLiteral("lifetime: delete context %1").arg(c));
                    delete ctx[c].data();
                }
            } else if (k == QLatin1String("laterctx")) {
                const int c = (int)(op.arg(0) % 3);
                if (ctxAlive(c)) {
                    tr.log(QStringLiteral("lifetime: deleteLater context %1").arg(c));
                    ctx[c]->deleteLater();
                    res.faults[QStringLiteral("deferred_deletion_pending")]++;
                }
            } else if (k == QLatin1String("drain")) {
                settle();
            } else if (k == QLatin1String("newctx")) {
                const int c = (int)(op.arg(0) % 3);
                if (!ctxAlive(c)) {
                    ctx[c] = new QObject;
                }
            }
            checkStep();
            ++step;
        }
        // end: finish what is unfinished (contexts may be dead by now), drop every handle, destroy contexts
        // ... unless the run abandons its promises: whoever holds the last handle of an unfinished promise/task pair drops it
        // (an operation that was given up); the continuation never runs and must be released with the task
        bool abandonedWithSelfCapture = false;
        if (abandon) {
            for (int i = 0; i < nPairs; ++i) {
                if (!model[i].finished) {
                    res.faults[QStringLiteral("promise_dropped_unfinished")]++;
                    const int pc = model[i].pendingCont;
                    if (pc >= 0 && conts[pc]->capturesOwnTask) {
                        abandonedWithSelfCapture = true;   // a cycle the caller built: nothing the library could release
                    }
                }
            }
        } else {
            for (int i = 0; i < nPairs; ++i) {
                doFinish(i);
                checkStep();
            }
        }
        for (int i = 0; i < nPairs; ++i) {
            promises[i].clear();
            tasks[i].clear();
            keeper[i].reset();
        }
        for (auto &c : ctx) {
            if (!c.isNull()) {
                delete c.data();
            }
        }
        settle();
        checkStep();
        for (const auto &c : conts) {
            if (c->expectFires < 0) {
                c->expectFires = 0;
            }
            if (c->fired != c->expectFires) {
                violation(QStringLiteral("fire_count"), QStringLiteral("C13:continuation_ran_%1_times_expected_%2:%3").arg(c->fired).arg(c->expectFires).arg(QLatin1String(Traits<T>::name)),
                          QStringLiteral("continuation #%1 (pair %2, context %3, behaviour %4) ran %5 times, the task model says %6").arg(c->no).arg(c->pair).arg(c->ctx).arg(c->behaviour).arg(c->fired).arg(c->expectFires));
            }
        }
        // release: nothing may be alive any more
        if (g_captureLive != 0 && abandonedWithSelfCapture) {
            res.probes[QStringLiteral("abandoned_pair_with_self_capturing_continuation_not_judged")]++;
        } else if (g_captureLive != 0) {
            bool selfCapture = false;
            for (const auto &c : conts) {
                selfCapture = selfCapture || c->capturesOwnTask;
            }
            violation(QStringLiteral("continuation_leak"), QStringLiteral("C13:continuation_not_released:%1:%2").arg(selfCapture ? QStringLiteral("captured_own_task") : QStringLiteral("plain"), ctxDiedBeforeFinish ? QStringLiteral("context_dead_at_finish") : QStringLiteral("context_alive")),
                      QStringLiteral("%1 continuation closure(s) are still alive after every promise, task and context has been destroyed").arg(g_captureLive));
        }
        if (g_trackedLive != 0) {
            violation(QStringLiteral("value_leak"), QStringLiteral("C13:value_not_released:") + QLatin1String(Traits<T>::name),
                      QStringLiteral("%1 result value(s) are still alive after every promise, task and context has been destroyed").arg(g_trackedLive));
        }
        res.nontrivial = conts.size() >= 2 && (reentered || ctxDiedBeforeFinish);
        res.steps = step;
    }

    void checkStep()
    {
        for (const auto &c : conts) {
            if (c->fired > 1) {
                violation(QStringLiteral("ran_twice"), QStringLiteral("C13:continuation_ran_more_than_once:") + QLatin1String(Traits<T>::name),
                          QStringLiteral("continuation #%1 ran %2 times").arg(c->no).arg(c->fired));
            }
            if (c->firedWithDeadContext && c->behaviour != 3) {
                violation(QStringLiteral("ran_on_dead_context"), QStringLiteral("C13:continuation_ran_after_context_destroyed:") + QLatin1String(Traits<T>::name),
                          QStringLiteral("continuation #%1 ran although its context %2 had been destroyed").arg(c->no).arg(c->ctx));
            }
            if (c->fired == 1 && c->expectFires == 1 && !isVoid && c->seen != c->expectValue) {
                violation(QStringLiteral("wrong_value"), QStringLiteral("C13:continuation_got_wrong_value:") + QLatin1String(Traits<T>::name),
                          QStringLiteral("continuation #%1 got %2, the promise was finished with %3").arg(c->no).arg(c->seen).arg(c->expectValue));
            }
            if (c->expectFires == 1 && c->fired == 0) {
                violation(QStringLiteral("did_not_run"), QStringLiteral("C13:continuation_did_not_run:") + QLatin1String(Traits<T>::name),
                          QStringLiteral("continuation #%1 (pair %2, behaviour %3) should have run (context alive, value available) but did not").arg(c->no).arg(c->pair).arg(c->behaviour));
            }
            if (c->expectFires == 0 && c->fired > 0) {
                violation(QStringLiteral("ran_unexpectedly"), QStringLiteral("C13:continuation_ran_although_model_says_never:") + QLatin1String(Traits<T>::name),
                          QStringLiteral("continuation #%1 (pair %2, context %3) ran, but it was replaced / its context was dead / the value had been taken").arg(c->no).arg(c->pair).arg(c->ctx));
            }
        }
    }
};

class C13Engine : public Engine
{
public:
    QString property() const override { return QStringLiteral("C13"); }
    QString describe() const override
    {
        return QStringLiteral("real: QXmppPromise<T>, QXmppTask<T>, TaskPrivate/TaskData for T in {void, copyable, move-only}, QObject context lifetime incl. deleteLater through the simulated dispatcher ; "
                              "stub: none (no I/O); the schedule is the order in which producer, consumer and lifetime actors call the API, including re-entrant calls from inside continuations ; oracle: task reference model + instance counters under ASan");
    }

    Plan generate(quint64 seed, const QString &tier) override
    {
        Plan p;
        Prng r(derive(seed, "c13"));
        p.knobs[QStringLiteral("type")] = r.uniform(3);
        p.knobs[QStringLiteral("pairs")] = r.range(1, 3);
        p.knobs[QStringLiteral("abandon")] = (qint64)(mix64(seed, 0xaba0) % 100 < 20);
        p.knobs[QStringLiteral("convFinish")] = (qint64)(mix64(seed, 0xc0f1) % 100 < 35);   // promises are finished through the converting overload finish(U &&), U != T   // unfinished promises are dropped at the end instead of finished
        const int n = (int)r.range(2, tier == QLatin1String("thorough") ? 22 : 14);
        for (int i = 0; i < n; ++i) {
            const qint64 pair = r.uniform(3);
            switch (r.weighted({ 6, 5, 6, 6, 5, 30, 16, 6, 8, 6, 5, 3 })) {
            case 0: p.ops.append(mkop(QStringLiteral("pcopy"), { pair })); break;
            case 1: p.ops.append(mkop(QStringLiteral("pdrop"), { pair })); break;
            case 2: p.ops.append(mkop(QStringLiteral("ptask"), { pair })); break;
            case 3: p.ops.append(mkop(QStringLiteral("tcopy"), { pair })); break;
            case 4: p.ops.append(mkop(QStringLiteral("tdrop"), { pair })); break;
            case 5: p.ops.append(mkop(QStringLiteral("then"), { pair, (qint64)r.uniform(3), r.weighted({ 45, 11, 11, 11, 11, 11 }), (qint64)r.uniform(3) })); break;
            case 6: p.ops.append(mkop(QStringLiteral("finish"), { pair })); break;
            case 7: p.ops.append(mkop(QStringLiteral("take"), { pair })); break;
            case 8: p.ops.append(mkop(QStringLiteral("delctx"), { (qint64)r.uniform(3) })); break;
            case 9: p.ops.append(mkop(QStringLiteral("laterctx"), { (qint64)r.uniform(3) })); break;
            case 10: p.ops.append(mkop(QStringLiteral("drain"))); break;
            case 11: p.ops.append(mkop(QStringLiteral("newctx"), { (qint64)r.uniform(3) })); break;
            }
        }
        return p;
    }

    RunResult execute(const Plan &plan, bool verbose) override
    {
        RunResult res;
        Trace tr(verbose);
        g_trackedLive = 0;
        g_captureLive = 0;
        switch (plan.knob(QStringLiteral("type"))) {
        case 0: {
            Runner<void> r(plan, tr, res);
            r.run();
            break;
        }
        case 1: {
            Runner<Tracked> r(plan, tr, res);
            r.run();
            break;
        }
        default: {
            Runner<std::unique_ptr<Tracked>> r(plan, tr, res);
            r.run();
        }
        }
        QStringList kinds;
        for (const auto &op : plan.ops) {
            kinds << op.brief();
        }
        res.caseKey = QString::number(plan.knob(QStringLiteral("type"))) + QLatin1Char('|') + QString::number(plan.knob(QStringLiteral("pairs"))) + QLatin1Char('|') + kinds.join(QLatin1Char(';'));
        res.traceHash = tr.hash.value();
        res.trace = tr.lines;
        return res;
    }
    QVector<Op> simplerOps(const Op &op) override
    {
        QVector<Op> out;
        if (op.kind == QLatin1String("then") && op.arg(2) != 0) {
            Op o = op;
            o.a[2] = 0;
            out << o;
        }
        return out;
    }
    QVector<Plan> simplerKnobs(const Plan &p) override
    {
        QVector<Plan> out;
        if (p.knob(QStringLiteral("pairs")) > 1) {
            Plan q = p;
            q.knobs[QStringLiteral("pairs")] = p.knob(QStringLiteral("pairs")) - 1;
            out << q;
        }
        return out;
    }
};

static EngineRegistrar reg(new C13Engine);

}  // namespace
