// C15 — ICE reacts only to checks authenticated with the session password; peers connect.
// Two real QXmppIceConnection agents on a simulated UDP network, every set-up step, datagram delivery, loss,
// duplication and timer a scheduler decision, plus a party without credentials that injects forged STUN.
// Safety: twin run — the same schedule with and without the forged datagrams must be indistinguishable in
// everything the agents do. Liveness: after the faults stop both agents connect and carry data unchanged.
#include "core/engine.h"
#include "net/simudp.h"
#include "peers/crypto.h"

#include "QXmppJingleData.h"
#include "QXmppStun.h"

#include <QRegularExpression>
#include <QUdpSocket>
#include <QtEndian>

using namespace sim;

namespace {

static const quint32 MAGIC = 0x2112A442;
static const char *ATTACKER_IP = "10.66.66.66";
static const quint16 ATTACKER_PORT = 6666;

quint32 crc32(const QByteArray &d)
{
    quint32 c = 0xffffffffu;
    for (unsigned char b : d) {
        c ^= b;
        for (int i = 0; i < 8; ++i) {
            c = (c >> 1) ^ (0xedb88320u & (0u - (c & 1u)));
        }
    }
    return ~c;
}

void put16(QByteArray &b, quint16 v)
{
    b.append((char)(v >> 8));
    b.append((char)(v & 0xff));
}
void put32(QByteArray &b, quint32 v)
{
    put16(b, (quint16)(v >> 16));
    put16(b, (quint16)(v & 0xffff));
}
void setLen(QByteArray &b, int bodyLen)
{
    b[2] = (char)(bodyLen >> 8);
    b[3] = (char)(bodyLen & 0xff);
}
void putAttr(QByteArray &b, quint16 type, const QByteArray &value)
{
    put16(b, type);
    put16(b, (quint16)value.size());
    b.append(value);
    while (b.size() % 4) {
        b.append('\0');
    }
}

struct StunView {
    bool ok = false;
    quint16 type = 0;
    QByteArray id;
    QList<QPair<quint16, QByteArray>> attrs;
};

StunView parseStun(const QByteArray &d)
{
    StunView v;
    if (d.size() < 20) {
        return v;
    }
    const auto *p = reinterpret_cast<const uchar *>(d.constData());
    v.type = qFromBigEndian<quint16>(p);
    const int len = qFromBigEndian<quint16>(p + 2);
    if (qFromBigEndian<quint32>(p + 4) != MAGIC || len != d.size() - 20) {
        return v;
    }
    v.id = d.mid(8, 12);
    int off = 20;
    while (off + 4 <= d.size()) {
        const quint16 t = qFromBigEndian<quint16>(p + off);
        const int l = qFromBigEndian<quint16>(p + off + 2);
        if (off + 4 + l > d.size()) {
            return v;
        }
        v.attrs.append({ t, d.mid(off + 4, l) });
        off += 4 + ((l + 3) & ~3);
    }
    v.ok = true;
    return v;
}

// integrity: 0 none, 1 HMAC under a key the forger made up, 2 truncated (10 bytes), 3 twenty zero bytes, 4 HMAC keyed with the username
QByteArray buildStun(quint16 type, const QByteArray &id, const QList<QPair<quint16, QByteArray>> &attrs, int integrity, const QByteArray &forgerKey, bool fingerprint)
{
    QByteArray b;
    put16(b, type);
    put16(b, 0);
    put32(b, MAGIC);
    b.append(id.leftJustified(12, '\0', true));
    for (const auto &a : attrs) {
        putAttr(b, a.first, a.second);
    }
    if (integrity == 1 || integrity == 4) {
        setLen(b, b.size() - 20 + 24);
        const QByteArray mac = simcrypto::hmac("SHA1", forgerKey, b);
        putAttr(b, 0x0008, mac);
    } else if (integrity == 2) {
        putAttr(b, 0x0008, QByteArray(10, 'x'));
    } else if (integrity == 3) {
        putAttr(b, 0x0008, QByteArray(20, '\0'));
    } else if (integrity == 7) {
        putAttr(b, 0x0008, forgerKey.leftJustified(20, '#', true));
    } else if (integrity == 6) {
        // a correct FINGERPRINT first (a decoder that stops there never looks at what follows), then twenty bytes
        setLen(b, b.size() - 20 + 8);
        QByteArray v;
        put32(v, crc32(b) ^ 0x5354554eu);
        putAttr(b, 0x8028, v);
        putAttr(b, 0x0008, QByteArray(20, 'z'));
        fingerprint = false;
    }
    if (fingerprint) {
        setLen(b, b.size() - 20 + 8);
        QByteArray v;
        put32(v, crc32(b) ^ 0x5354554eu);
        putAttr(b, 0x8028, v);
    }
    setLen(b, b.size() - 20);
    return b;
}

QByteArray xorAddr(const QHostAddress &h, quint16 port)
{
    QByteArray v;
    v.append('\0');
    v.append('\1');
    put16(v, port ^ (quint16)(MAGIC >> 16));
    put32(v, h.toIPv4Address() ^ MAGIC);
    return v;
}

struct AgentState {
    QString name;
    QXmppIceConnection *conn = nullptr;
    QList<QHostAddress> addrs;
    bool controlling = false;
    QList<QXmppJingleCandidate> locals;
    bool credsSet = false, started = false;
    QList<int> candsLeft;   // indexes into the peer's locals not yet signalled
    QMap<int, QList<QByteArray>> appReceived;
    int connectedSignal = 0;
};

struct Outcome {
    QStringList obs;                 // everything the agents did, in order
    bool bothConnected = false;
    qint64 connectedAt = -1;
    QStringList problems;            // liveness / priority / data findings (signature|detail)
    int forgeriesDelivered = 0;
    QMap<QString, int> faults, probes;
    int steps = 0;
    QString reactionClass;           // filled by the comparison
};

class C15Engine : public Engine
{
public:
    QString property() const override { return QStringLiteral("C15"); }
    QString describe() const override
    {
        return QStringLiteral("real: QXmppIceConnection/QXmppIceComponent (candidate pairing, checks, triggered checks, nomination, selection), QXmppStunTransaction (retransmission timers), QXmppStunMessage codec, QXmppUdpTransport ; "
                              "stub: UDP (QUdpSocket entry points interposed at link time onto an in-process datagram network), clock and timers, randomness, the signalling channel (credentials and candidates handed over by scheduler ops), a forger without credentials with its own STUN encoder (OpenSSL HMAC); optional full-cone NAT and a STUN server (own encoder) for server-reflexive candidates; optional TURN server (own implementation of allocation with long-term credentials, channel binding and ChannelData relaying) for relayed candidates, with the direct paths between the agents optionally unusable");
    }

    Plan generate(quint64 seed, const QString &tier) override
    {
        Plan p;
        Prng r(derive(seed, "c15"));
        auto &k = p.knobs;
        k[QStringLiteral("comps")] = r.chance(0.35) ? 2 : 1;
        k[QStringLiteral("addrsA")] = r.chance(0.3) ? 2 : 1;
        k[QStringLiteral("addrsB")] = r.chance(0.3) ? 2 : 1;
        k[QStringLiteral("aControlling")] = r.chance(0.5);
        // an agent may sit behind a full-cone NAT and learn its public mapping from a (simulated) STUN server
        k[QStringLiteral("natA")] = r.chance(0.2);
        k[QStringLiteral("natB")] = r.chance(0.2);
        k[QStringLiteral("stunLoss")] = r.chance(0.3);
        {
            // TURN (drawn from its own stream so that the other knobs of a seed stay what they were): an agent may hold a
            // relayed candidate on a simulated TURN server; the direct paths between the agents may then be unusable
            Prng rt(derive(seed, "c15turn"));
            const bool turnRun = rt.chance(0.18);
            const int who = (int)rt.uniform(3);   // 0: A, 1: B, 2: both
            k[QStringLiteral("turnA")] = turnRun && who != 1;
            k[QStringLiteral("turnB")] = turnRun && who != 0;
            k[QStringLiteral("directBlocked")] = turnRun && k[QStringLiteral("natA")] == 0 && k[QStringLiteral("natB")] == 0 && rt.chance(0.5);
        }
        const bool attack = r.chance(0.55);
        const int nCands = 4;   // upper bound used for op arguments (interpreted modulo what exists)
        QVector<Op> setup;
        for (int a = 0; a < 2; ++a) {
            setup.append(mkop(QStringLiteral("creds"), { a }));
            setup.append(mkop(QStringLiteral("start"), { a }));
            const int give = (int)r.range(1, nCands);
            for (int i = 0; i < give; ++i) {
                setup.append(mkop(QStringLiteral("cand"), { a, (qint64)r.uniform(8) }));
            }
        }
        // the order of the signalling steps is a scheduler choice; sometimes one side is far ahead of the other
        const int style = r.weighted({ 40, 20, 20, 20 });   // 0 shuffled, 1 A first, 2 B first, 3 late start of the controlled side
        if (style == 0) {
            for (int i = setup.size() - 1; i > 0; --i) {
                setup.swapItemsAt(i, (int)r.uniform(i + 1));
            }
        } else if (style == 2) {
            std::stable_sort(setup.begin(), setup.end(), [](const Op &x, const Op &y) { return x.arg(0) > y.arg(0); });
        }
        const int n = (int)r.range(8, tier == QLatin1String("thorough") ? 70 : 40);
        int si = 0;
        for (int i = 0; i < n; ++i) {
            const quint32 salt = (quint32)r.next();
            const bool moreSetup = si < setup.size();
            // style 1/2: finish one side completely and let the network run before the other side moves
            const int wSetup = moreSetup ? (style == 0 ? 25 : (si < setup.size() / 2 ? 60 : 6)) : 0;
            switch (r.weighted({ wSetup, 30, 10, 5, 18, attack ? 22 : 0 })) {
            case 0:
                p.ops.append(setup[si++]);
                break;
            case 1:
                p.ops.append(mkop(QStringLiteral("deliver"), { (qint64)r.uniform(6) }));
                break;
            case 2:
                p.ops.append(mkop(QStringLiteral("drop"), { (qint64)r.uniform(6) }));
                break;
            case 3:
                p.ops.append(mkop(QStringLiteral("dup"), { (qint64)r.uniform(6) }));
                break;
            case 4:
                p.ops.append(mkop(QStringLiteral("timer")));
                break;
            case 5:
                // forge: target agent, component, target socket, kind, source, flags
                p.ops.append(mkop(QStringLiteral("forge"), { (qint64)r.uniform(2), (qint64)r.uniform(2), (qint64)r.uniform(2), (qint64)r.uniform(12), (qint64)r.uniform(3), (qint64)r.uniform(256) }, {}, salt));
                break;
            }
        }
        Q_UNUSED(style);
        return p;
    }

    Outcome runOnce(const Plan &plan, bool withForgeries, Trace *tr)
    {
        resetWorld(plan.seed);
        Outcome out;
        {
            UdpNet net;
            QObject ctx;
            const int comps = (int)plan.knob(QStringLiteral("comps"), 1);
            AgentState ag[2];
            ag[0].name = QStringLiteral("A");
            ag[1].name = QStringLiteral("B");
            const int nA = (int)plan.knob(QStringLiteral("addrsA"), 1), nB = (int)plan.knob(QStringLiteral("addrsB"), 1);
            for (int i = 0; i < nA; ++i) {
                ag[0].addrs << QHostAddress(QStringLiteral("10.0.1.%1").arg(i + 1));
            }
            for (int i = 0; i < nB; ++i) {
                ag[1].addrs << QHostAddress(QStringLiteral("10.0.2.%1").arg(i + 1));
            }
            ag[0].controlling = plan.knob(QStringLiteral("aControlling")) == 1;
            ag[1].controlling = !ag[0].controlling;
            const QHostAddress attackerAddr(QString::fromLatin1(ATTACKER_IP));
            const QHostAddress stunAddr(QStringLiteral("198.51.100.1"));
            const bool natted[2] = { plan.knob(QStringLiteral("natA")) == 1, plan.knob(QStringLiteral("natB")) == 1 };
            auto note = [&](const QString &s) {
                out.obs << s;
                if (tr) {
                    tr->log(s);
                }
            };
            // last STUN request seen on the wire from each socket (what an on-path observer knows)
            struct Seen {
                QHostAddress src;
                quint16 sport;
                QHostAddress dst;
                quint16 dport;
                QByteArray data;
            };
            QList<Seen> seenRequests;
            QSet<QByteArray> sentBefore;
            net.onSend = [&](const Datagram &d) {
                note(QStringLiteral("send %1:%2 -> %3:%4 %5").arg(d.src.toString()).arg(d.sport).arg(d.dst.toString()).arg(d.dport).arg(QString::fromLatin1(d.data.toHex())));
                const StunView v = parseStun(d.data);
                if (v.ok && (v.type & 0x0110) == 0) {
                    seenRequests.append({ d.src, d.sport, d.dst, d.dport, d.data });
                }
            };
            // ---- a TURN server (RFC 5766, long-term credentials) as a node of the datagram network: allocations, channel
            // bindings (which also install the permission), ChannelData in both directions. Everything it forwards is
            // handed over at once: loss, duplication and reordering act on the agent-to-server leg.
            const bool turn[2] = { plan.knob(QStringLiteral("turnA")) == 1, plan.knob(QStringLiteral("turnB")) == 1 };
            const bool directBlocked = plan.knob(QStringLiteral("directBlocked")) == 1;
            const QHostAddress turnAddr(QStringLiteral("198.51.100.2"));
            const QByteArray turnRealm = "sim.example", turnUser = "turnuser", turnPass = "turnpass";
            const QByteArray turnKey = simcrypto::hash("MD5", turnUser + ':' + turnRealm + ':' + turnPass);
            struct TurnAlloc {
                QHostAddress client;
                quint16 cport = 0;
                quint16 relayPort = 0;
                QMap<quint16, QPair<QHostAddress, quint16>> channels;
            };
            QList<TurnAlloc> allocs;
            quint16 nextRelayPort = 50000;
            auto turnReply = [&](const Datagram &req, const QByteArray &bytes) {
                Datagram r;
                r.src = turnAddr;
                r.sport = 3478;
                r.dst = req.src;
                r.dport = req.sport;
                r.data = bytes;
                net.deliver(r);
            };
            auto turnHandle = [&](const Datagram &d) -> bool {
                if (d.dst != turnAddr) {
                    return false;
                }
                if (d.dport != 3478) {
                    // a datagram for a relayed address: carried to the client if it bound a channel to that peer
                    for (const auto &al : std::as_const(allocs)) {
                        if (al.relayPort != d.dport) {
                            continue;
                        }
                        for (auto it = al.channels.constBegin(); it != al.channels.constEnd(); ++it) {
                            if (it.value().first == d.src && it.value().second == d.sport) {
                                QByteArray cd;
                                put16(cd, it.key());
                                put16(cd, (quint16)d.data.size());
                                cd += d.data;
                                Datagram r;
                                r.src = turnAddr;
                                r.sport = 3478;
                                r.dst = al.client;
                                r.dport = al.cport;
                                r.data = cd;
                                out.probes[QStringLiteral("turn_relayed_to_client")]++;
                                net.deliver(r);
                                return true;
                            }
                        }
                        out.probes[QStringLiteral("turn_dropped_no_permission")]++;
                        return true;
                    }
                    return true;
                }
                TurnAlloc *mine = nullptr;
                for (auto &al : allocs) {
                    if (al.client == d.src && al.cport == d.sport) {
                        mine = &al;
                    }
                }
                if (d.data.size() >= 4 && (d.data[0] & 0xc0) == 0x40) {
                    const quint16 ch = qFromBigEndian<quint16>(reinterpret_cast<const uchar *>(d.data.constData()));
                    const int len = qFromBigEndian<quint16>(reinterpret_cast<const uchar *>(d.data.constData()) + 2);
                    if (mine && mine->channels.contains(ch) && len <= d.data.size() - 4) {
                        Datagram r;
                        r.src = turnAddr;
                        r.sport = mine->relayPort;
                        r.dst = mine->channels[ch].first;
                        r.dport = mine->channels[ch].second;
                        r.data = d.data.mid(4, len);
                        out.probes[QStringLiteral("turn_relayed_to_peer")]++;
                        net.deliver(r);
                    } else {
                        out.probes[QStringLiteral("turn_channel_data_for_unbound_channel")]++;
                    }
                    return true;
                }
                const StunView v = parseStun(d.data);
                if (!v.ok || (v.type & 0x0110) != 0) {
                    return true;
                }
                auto attr = [&](quint16 t) -> QByteArray {
                    for (const auto &a : v.attrs) {
                        if (a.first == t) {
                            return a.second;
                        }
                    }
                    return QByteArray();
                };
                auto has = [&](quint16 t) {
                    for (const auto &a : v.attrs) {
                        if (a.first == t) {
                            return true;
                        }
                    }
                    return false;
                };
                auto errorReply = [&](int code) {
                    QByteArray ec(4, '\0');
                    ec[2] = (char)(code / 100);
                    ec[3] = (char)(code % 100);
                    ec += "Unauthorized";
                    turnReply(d, buildStun((quint16)(v.type | 0x0110), v.id, { { 0x0009, ec }, { 0x0014, turnRealm }, { 0x0015, QByteArray("nonce-1") } }, 0, {}, false));
                };
                // long-term credentials: MESSAGE-INTEGRITY over the message up to the attribute, length field covering it
                bool authentic = false;
                if (has(0x0008) && attr(0x0006) == turnUser && attr(0x0014) == turnRealm) {
                    int off = 20;
                    const auto *p = reinterpret_cast<const uchar *>(d.data.constData());
                    while (off + 4 <= d.data.size()) {
                        const quint16 t = qFromBigEndian<quint16>(p + off);
                        const int l = qFromBigEndian<quint16>(p + off + 2);
                        if (t == 0x0008) {
                            QByteArray head = d.data.left(off);
                            setLen(head, off - 20 + 24);
                            authentic = l == 20 && simcrypto::hmac("SHA1", turnKey, head) == d.data.mid(off + 4, 20);
                            break;
                        }
                        off += 4 + ((l + 3) & ~3);
                    }
                }
                if (!authentic) {
                    out.probes[QStringLiteral("turn_401")]++;
                    errorReply(401);
                    return true;
                }
                const quint16 method = v.type & 0x3eef;
                if (method == 0x0003) {   // Allocate
                    if (!mine) {
                        TurnAlloc al;
                        al.client = d.src;
                        al.cport = d.sport;
                        al.relayPort = nextRelayPort++;
                        allocs.append(al);
                        mine = &allocs.last();
                        out.probes[QStringLiteral("turn_allocation")]++;
                    }
                    QByteArray life;
                    put32(life, 600);
                    turnReply(d, buildStun(0x0103, v.id, { { 0x0016, xorAddr(turnAddr, mine->relayPort) }, { 0x000d, life }, { 0x0020, xorAddr(d.src, d.sport) } }, 1, turnKey, false));
                } else if (method == 0x0009) {   // ChannelBind
                    const QByteArray cn = attr(0x000c), pa = attr(0x0012);
                    if (mine && cn.size() == 4 && pa.size() == 8) {
                        const quint16 ch = qFromBigEndian<quint16>(reinterpret_cast<const uchar *>(cn.constData()));
                        const quint16 port = qFromBigEndian<quint16>(reinterpret_cast<const uchar *>(pa.constData()) + 2) ^ (quint16)(MAGIC >> 16);
                        const QHostAddress host(qFromBigEndian<quint32>(reinterpret_cast<const uchar *>(pa.constData()) + 4) ^ MAGIC);
                        mine->channels[ch] = qMakePair(host, port);
                        out.probes[QStringLiteral("turn_channel_bound")]++;
                        turnReply(d, buildStun(0x0109, v.id, {}, 1, turnKey, false));
                    } else {
                        errorReply(400);
                    }
                } else if (method == 0x0004) {   // Refresh
                    const QByteArray lt = attr(0x000d);
                    QByteArray life;
                    const quint32 want = lt.size() == 4 ? qFromBigEndian<quint32>(reinterpret_cast<const uchar *>(lt.constData())) : 600;
                    put32(life, want);
                    if (mine && want == 0) {
                        for (int i = 0; i < allocs.size(); ++i) {
                            if (&allocs[i] == mine) {
                                allocs.removeAt(i);
                                break;
                            }
                        }
                    }
                    turnReply(d, buildStun(0x0104, v.id, { { 0x000d, life } }, 1, turnKey, false));
                } else {
                    turnReply(d, buildStun((quint16)(v.type | 0x0100), v.id, {}, 1, turnKey, false));
                }
                return true;
            };
            if (turn[0] || turn[1]) {
                net.onUnbound = turnHandle;
            }
            // a socket bound to "any" (the TURN client socket) uses the first address of the agent that owns it
            net.anyAddress = [&](QUdpSocket *s) {
                for (QObject *o = s; o; o = o->parent()) {
                    for (int a = 0; a < 2; ++a) {
                        if (o == ag[a].conn) {
                            return ag[a].addrs.first();
                        }
                    }
                }
                return QHostAddress(QHostAddress::AnyIPv4);
            };
            if (directBlocked) {
                // the agents cannot reach each other directly (10.0.1.x <-> 10.0.2.x): only a relayed path works
                net.blocked = [](const Datagram &d) {
                    const quint32 s = d.src.toIPv4Address() >> 8, t = d.dst.toIPv4Address() >> 8;
                    return (s == 0x0a0001 && t == 0x0a0002) || (s == 0x0a0002 && t == 0x0a0001);
                };
            }
            for (int a = 0; a < 2; ++a) {
                auto &g = ag[a];
                g.conn = new QXmppIceConnection(&ctx);
                g.conn->setIceControlling(g.controlling);
                for (int c = 1; c <= comps; ++c) {
                    g.conn->addComponent(c);
                }
                QObject::connect(g.conn, &QXmppLoggable::logMessage, &ctx, [&, a](QXmppLogger::MessageType t, const QString &m) {
                    if (m.startsWith(QLatin1String("ICE pair selected "))) {
                        // pair priority (RFC 5245 5.7.2): 2^32*min(G,D) + 2*max(G,D) + (G>D), G the controlling agent's candidate priority
                        static const QRegularExpression re(QStringLiteral("^ICE pair selected (\\S+) port (\\d+) \\(local (\\S+) port (\\d+)\\).*\\(priority: (\\d+)\\)$"));
                        const auto mt = re.match(m);
                        if (mt.hasMatch()) {
                            quint64 localPrio = 0, remoteHostPrio = 0;
                            int comp = 0;
                            for (const auto &c : std::as_const(ag[a].locals)) {
                                if (c.host().toString() == mt.captured(3) && c.port() == mt.captured(4).toInt()) {
                                    localPrio = (quint32)c.priority();
                                    comp = c.component();
                                }
                            }
                            for (const auto &c : std::as_const(ag[1 - a].locals)) {
                                if (c.host().toString() == mt.captured(1) && c.port() == mt.captured(2).toInt()) {
                                    remoteHostPrio = (quint32)c.priority();
                                }
                            }
                            const quint64 remotePrflxPrio = (110u << 24) + (65535u << 8) + (256 - comp);
                            auto pairPrio = [&](quint64 l, quint64 r) {
                                const quint64 G = ag[a].controlling ? l : r, D = ag[a].controlling ? r : l;
                                return (quint64(1) << 32) * qMin(G, D) + 2 * qMax(G, D) + (G > D ? 1 : 0);
                            };
                            const quint64 got = mt.captured(5).toULongLong();
                            out.probes[QStringLiteral("selected_pair_priority_checked")]++;
                            if (mt.captured(1) == QLatin1String("198.51.100.2") || mt.captured(3) == QLatin1String("198.51.100.2")) {
                                out.probes[QStringLiteral("selected_pair_uses_turn_relay")]++;
                            }
                            if (!localPrio || !remoteHostPrio) {
                                out.problems << QStringLiteral("C15:selected_pair_not_between_advertised_candidates|%1 selected a pair that is not made of advertised candidates: %2").arg(ag[a].name, m);
                            } else if (got != pairPrio(localPrio, remoteHostPrio) && got != pairPrio(localPrio, remotePrflxPrio)) {
                                out.problems << QStringLiteral("C15:pair_priority|%1 computed pair priority %2, RFC 5245 gives %3 (or %4 for a peer-reflexive remote candidate)").arg(ag[a].name).arg(got).arg(pairPrio(localPrio, remoteHostPrio)).arg(pairPrio(localPrio, remotePrflxPrio));
                            }
                        }
                    }
                    if (t == QXmppLogger::WarningMessage) {
                        if (tr) {
                            tr->note(ag[a].name + QStringLiteral(" warning: ") + m);
                        }
                        return;
                    }
                    note(ag[a].name + QStringLiteral(" log: ") + m);
                });
                QObject::connect(g.conn, &QXmppIceConnection::connected, &ctx, [&, a] {
                    ag[a].connectedSignal++;
                    note(ag[a].name + QStringLiteral(" signal: connected"));
                });
                QObject::connect(g.conn, &QXmppIceConnection::disconnected, &ctx, [&, a] {
                    note(ag[a].name + QStringLiteral(" signal: disconnected"));
                });
                for (int c = 1; c <= comps; ++c) {
                    QObject::connect(g.conn->component(c), &QXmppIceComponent::datagramReceived, &ctx, [&, a, c](const QByteArray &d) {
                        if (d.isEmpty()) {
                            // payload that is not STUN is media for ICE and goes to the application whoever sent it: an empty
                            // datagram from a stranger shows up here and is no reaction of the agent (not part of the compared history)
                            if (tr) {
                                tr->log(QStringLiteral("%1 component %2 received an empty application datagram").arg(ag[a].name).arg(c));
                            }
                            return;
                        }
                        ag[a].appReceived[c].append(d);
                        note(QStringLiteral("%1 component %2 received application datagram %3").arg(ag[a].name).arg(c).arg(QString::fromLatin1(d.toHex())));
                    });
                    QObject::connect(g.conn->component(c), &QXmppIceComponent::connected, &ctx, [&, a, c] {
                        note(QStringLiteral("%1 component %2 signal: connected").arg(ag[a].name).arg(c));
                    });
                }
                if (natted[a]) {
                    g.conn->setStunServer(stunAddr, 3478);
                }
                if (turn[a]) {
                    g.conn->setTurnServer(turnAddr, 3478);
                    g.conn->setTurnUser(QString::fromLatin1(turnUser));
                    g.conn->setTurnPassword(QString::fromLatin1(turnPass));
                }
                const int socketsBefore = net.sockets.size();
                if (!g.conn->bind(g.addrs)) {
                    out.problems << QStringLiteral("C15:bind_failed|bind on simulated addresses failed");
                }
                if (natted[a]) {
                    for (int i = socketsBefore; i < net.sockets.size(); ++i) {
                        net.nat.append({ net.sockets[i].addr, net.sockets[i].port, QHostAddress(QStringLiteral("203.0.113.%1").arg(a + 1)), (quint16)(30000 + i) });
                    }
                }
            }
            // ---- candidate gathering: the STUN server tells each agent behind a NAT its public mapping
            if (natted[0] || natted[1] || turn[0] || turn[1]) {
                bool lostOne = plan.knob(QStringLiteral("stunLoss")) != 1;
                for (int guard = 0; guard < 60; ++guard) {
                    while (!net.inflight.isEmpty()) {
                        const Datagram d = net.inflight.takeFirst();
                        if (d.dst == turnAddr) {
                            if (!lostOne) {
                                lostOne = true;
                                out.faults[QStringLiteral("turn_server_request_lost")]++;
                                continue;
                            }
                            turnHandle(d);
                            settle();
                            continue;
                        }
                        if (!(d.dst == stunAddr && d.dport == 3478)) {
                            continue;
                        }
                        if (!lostOne) {
                            lostOne = true;
                            out.faults[QStringLiteral("stun_server_request_lost")]++;
                            continue;
                        }
                        const StunView v = parseStun(d.data);
                        if (!v.ok || v.type != 0x0001) {
                            continue;
                        }
                        Datagram resp;
                        resp.src = stunAddr;
                        resp.sport = 3478;
                        resp.dst = d.src;
                        resp.dport = d.sport;
                        resp.data = buildStun(0x0101, v.id, { { 0x0020, xorAddr(d.src, d.sport) } }, 0, {}, true);
                        net.deliver(resp);
                        settle();
                    }
                    if (ag[0].conn->gatheringState() == QXmppIceConnection::CompleteGatheringState && ag[1].conn->gatheringState() == QXmppIceConnection::CompleteGatheringState) {
                        break;
                    }
                    auto *disp = Dispatcher::instance();
                    const qint64 due = disp->nextTimerDue();
                    if (due < 0 || due > g_now_ms + 10000) {
                        break;
                    }
                    Dispatcher::advanceTo(due);
                    disp->fireOneDue(0);
                    settle();
                }
                if (natted[0] || natted[1]) {
                    out.probes[QStringLiteral("agent_behind_nat")]++;
                }
                if (turn[0] || turn[1]) {
                    out.probes[QStringLiteral("agent_with_turn_relay")]++;
                }
                if (directBlocked) {
                    out.probes[QStringLiteral("direct_paths_unusable_relay_needed")]++;
                }
            }
            for (int a = 0; a < 2; ++a) {
                ag[a].locals = ag[a].conn->localCandidates();
            }
            for (int a = 0; a < 2; ++a) {
                for (int i = 0; i < ag[1 - a].locals.size(); ++i) {
                    ag[a].candsLeft << i;
                }
            }
            // ---- advertised priorities (RFC 5245 4.1.2.1): type preference 126 (host) / 100 (server reflexive), component in the low byte
            for (int a = 0; a < 2; ++a) {
                const int expectCount = comps * ag[a].addrs.size() * (natted[a] ? 2 : 1) + (turn[a] ? comps : 0);
                if (ag[a].locals.size() != expectCount) {
                    out.problems << QStringLiteral("C15:candidate_count|%1 advertises %2 candidates, expected %3 (%4 components x %5 addresses%6)").arg(ag[a].name).arg(ag[a].locals.size()).arg(expectCount).arg(comps).arg(ag[a].addrs.size()).arg(natted[a] ? QStringLiteral(", host and server-reflexive") : QString());
                }
                for (const auto &c : std::as_const(ag[a].locals)) {
                    const quint32 pr = (quint32)c.priority();
                    const quint32 localPref = (pr >> 8) & 0xffff;
                    const bool host = c.type() == QXmppJingleCandidate::HostType, srflx = c.type() == QXmppJingleCandidate::ServerReflexiveType;
                    const bool relayed = turn[a] && c.type() == QXmppJingleCandidate::RelayedType;
                    const quint32 expect = ((host ? 126u : (srflx ? 100u : 0u)) << 24) + (localPref << 8) + (256 - c.component());
                    bool addressOk = false;
                    if (host) {
                        addressOk = net.findAddr(c.host(), c.port()) != nullptr;
                    } else if (srflx) {
                        for (const auto &m : std::as_const(net.nat)) {
                            addressOk = addressOk || (m.pub == c.host() && m.pubPort == c.port());
                        }
                    } else if (relayed) {
                        for (const auto &al : std::as_const(allocs)) {
                            addressOk = addressOk || (c.host() == turnAddr && al.relayPort == c.port());
                        }
                    }
                    if (!(host || srflx || relayed) || pr != expect || !addressOk) {
                        out.problems << QStringLiteral("C15:advertised_priority|%1 advertises candidate %2:%3 component %4 type %5 with priority %6 (expected %7)").arg(ag[a].name, c.host().toString()).arg(c.port()).arg(c.component()).arg((int)c.type()).arg(pr).arg(expect);
                    }
                }
            }

            auto isFirstTransmission = [&](const Datagram &d) {
                return !d.duplicate && !d.retransmission;
            };
            // mark retransmissions when they enter the network
            auto markRetransmissions = [&] {
                for (auto &d : net.inflight) {
                    if (d.id > 0) {
                        const QByteArray key = d.src.toString().toLatin1() + ':' + QByteArray::number(d.sport) + '>' + d.dst.toString().toLatin1() + ':' + QByteArray::number(d.dport) + '|' + d.data;
                        if (sentBefore.contains(key)) {
                            d.retransmission = true;
                        } else {
                            sentBefore.insert(key);
                        }
                        d.id = -d.id;   // processed
                    }
                }
            };
            auto fireNext = [&](qint64 within) {
                auto *d = Dispatcher::instance();
                const qint64 due = d->nextTimerDue();
                if (due < 0 || due > g_now_ms + within) {
                    return false;
                }
                Dispatcher::advanceTo(due);
                d->fireOneDue(0);
                settle();
                return true;
            };
            auto doSetup = [&](const QString &kind, int a, int idx) {
                auto &g = ag[a];
                auto &peer = ag[1 - a];
                auto giveCreds = [&](AgentState &x, AgentState &y) {
                    if (!x.credsSet) {
                        x.credsSet = true;
                        x.conn->setRemoteUser(y.conn->localUser());
                        x.conn->setRemotePassword(y.conn->localPassword());
                        note(QStringLiteral("op: %1 learns the peer's credentials").arg(x.name));
                    }
                };
                // signalling causality (offer/answer): the controlling agent made the offer, so the controlled agent
                // holds the offerer's credentials before its own answer can reach the controlling agent; candidates
                // travel together with (or after) the credentials
                auto credsInOrder = [&](AgentState &x, AgentState &y) {
                    if (x.controlling) {
                        giveCreds(y, x);
                    }
                    giveCreds(x, y);
                };
                if (kind == QLatin1String("creds")) {
                    credsInOrder(g, peer);
                } else if (kind == QLatin1String("start")) {
                    if (!g.started) {
                        g.started = true;
                        note(QStringLiteral("op: %1 connectToHost").arg(g.name));
                        g.conn->connectToHost();
                    }
                } else if (kind == QLatin1String("cand")) {
                    if (!g.candsLeft.isEmpty()) {
                        credsInOrder(g, peer);
                        const int ci = g.candsLeft.takeAt(idx % g.candsLeft.size());
                        const auto &c = peer.locals[ci];
                        note(QStringLiteral("op: %1 learns remote candidate %2:%3 component %4").arg(g.name, c.host().toString()).arg(c.port()).arg(c.component()));
                        g.conn->addRemoteCandidate(c);
                    }
                }
                settle();
            };
            auto stateLine = [&] {
                QString s = QStringLiteral("state:");
                for (int a = 0; a < 2; ++a) {
                    for (int c = 1; c <= comps; ++c) {
                        s += QStringLiteral(" %1%2=%3").arg(ag[a].name).arg(c).arg(ag[a].conn->component(c)->isConnected());
                    }
                }
                return s;
            };

            // ------------------------------------------------------------------ the scheduled part
            for (const auto &op : plan.ops) {
                ++out.steps;
                const QString &k = op.kind;
                markRetransmissions();
                if (k == QLatin1String("creds") || k == QLatin1String("start") || k == QLatin1String("cand")) {
                    doSetup(k, (int)(op.arg(0) & 1), (int)op.arg(1));
                } else if (k == QLatin1String("deliver")) {
                    if (!net.inflight.isEmpty()) {
                        const int i = (int)(op.arg(0) % net.inflight.size());
                        const Datagram d = net.inflight[i];
                        note(QStringLiteral("net: deliver %1:%2 -> %3:%4").arg(d.src.toString()).arg(d.sport).arg(d.dst.toString()).arg(d.dport));
                        if (i > 0) {
                            out.faults[QStringLiteral("datagram_reordered")]++;
                        }
                        net.deliverInflight(i);
                        settle();
                    }
                } else if (k == QLatin1String("drop")) {
                    QList<int> firsts;
                    for (int i = 0; i < net.inflight.size(); ++i) {
                        if (isFirstTransmission(net.inflight[i])) {
                            firsts << i;
                        }
                    }
                    if (!firsts.isEmpty()) {
                        const int i = firsts[(int)(op.arg(0) % firsts.size())];
                        const Datagram d = net.inflight[i];
                        note(QStringLiteral("net: lose first transmission %1:%2 -> %3:%4").arg(d.src.toString()).arg(d.sport).arg(d.dst.toString()).arg(d.dport));
                        out.faults[QStringLiteral("first_transmission_lost")]++;
                        net.dropInflight(i);
                    }
                } else if (k == QLatin1String("dup")) {
                    if (!net.inflight.isEmpty()) {
                        const int i = (int)(op.arg(0) % net.inflight.size());
                        note(QStringLiteral("net: duplicate datagram %1").arg(i));
                        out.faults[QStringLiteral("datagram_duplicated")]++;
                        net.duplicateInflight(i);
                    }
                } else if (k == QLatin1String("timer")) {
                    if (fireNext(2000)) {
                        note(QStringLiteral("timer fired at %1 ms").arg(g_now_ms));
                    }
                } else if (k == QLatin1String("forge") && withForgeries) {
                    [&] {
                    Prng fr(mix64(plan.seed, op.salt));
                    const int ta = (int)(op.arg(0) & 1);
                    auto &target = ag[ta];
                    auto &peer = ag[1 - ta];
                    const int comp = 1 + (int)(op.arg(1) % comps);
                    QList<QXmppJingleCandidate> tl, pl;
                    for (const auto &c : std::as_const(target.locals)) {
                        if (c.component() == comp) {
                            tl << c;
                        }
                    }
                    for (const auto &c : std::as_const(peer.locals)) {
                        if (c.component() == comp) {
                            pl << c;
                        }
                    }
                    if (tl.isEmpty() || pl.isEmpty()) {
                        return;
                    }
                    const auto tsock = tl[(int)(op.arg(2) % tl.size())];
                    const int kind = (int)op.arg(3);
                    const int srcMode = (int)op.arg(4);
                    const int flags = (int)op.arg(5);
                    Datagram f;
                    f.dst = tsock.host();
                    f.dport = (quint16)tsock.port();
                    if (srcMode == 0) {
                        f.src = attackerAddr;
                        f.sport = ATTACKER_PORT;
                    } else {
                        const auto pc = pl[(int)(fr.uniform(pl.size()))];
                        f.src = pc.host();
                        f.sport = (quint16)(srcMode == 1 ? pc.port() : pc.port() + 100);
                    }
                    QByteArray id = fr.bytes(12);
                    QList<QPair<quint16, QByteArray>> attrs;
                    const QByteArray goodUser = (target.conn->localUser() + QLatin1Char(':') + peer.conn->localUser()).toUtf8();
                    QByteArray user = goodUser;
                    if ((flags & 3) == 1) {
                        user = "nobody:else";
                    } else if ((flags & 3) == 2) {
                        user.clear();
                    }
                    const bool useCandidate = flags & 4;
                    const int role = (flags >> 3) & 3;   // 0 the role the peer really has, 1 the other, 2 none, 3 both
                    const bool fingerprint = flags & 32;
                    int integrity = kind % 4 == 0 ? ((flags & 128) ? 6 : 0) : (kind % 4 == 1 ? 1 : (kind % 4 == 2 ? 2 : ((flags & 64) ? 3 : 4)));
                    const QByteArray forgerKey = integrity == 4 ? user : fr.bytes(22).toHex().left(22);
                    QString what;
                    auto roleAttrs = [&] {
                        const bool peerControlling = peer.controlling;
                        const QByteArray tb = fr.bytes(8);
                        if (role == 0 || role == 3) {
                            attrs.append({ (quint16)(peerControlling ? 0x802a : 0x8029), tb });
                        }
                        if (role == 1 || role == 3) {
                            attrs.append({ (quint16)(peerControlling ? 0x8029 : 0x802a), tb });
                        }
                    };
                    if (kind >= 8) {
                        // structurally odd: attributes hidden inside an over-long container attribute, followed by twenty
                        // arbitrary bytes dressed up as MESSAGE-INTEGRITY (a decoder whose attribute walk and whose
                        // integrity check disagree about attribute boundaries would be fooled)
                        quint16 type = 0x0001;
                        if (kind == 9) {
                            const Seen *req = nullptr;
                            for (int i = seenRequests.size() - 1; i >= 0; --i) {
                                if (seenRequests[i].src == tsock.host() && seenRequests[i].sport == tsock.port()) {
                                    req = &seenRequests[i];
                                    break;
                                }
                            }
                            if (!req) {
                                return;
                            }
                            id = req->data.mid(8, 12);
                            if (srcMode != 0) {
                                f.src = req->dst;
                                f.sport = req->dport;
                            }
                            type = 0x0101;
                        }
                        static const quint16 containers[] = { 0x0001, 0x0020, 0x0004, 0x0006, 0x8022, 0x7777, 0x0009, 0x802c };
                        const quint16 container = containers[fr.uniform(8)];
                        QByteArray value;
                        if (container == 0x0006) {
                            value = goodUser;
                            while (value.size() % 4) {
                                value.append('\0');
                            }
                        } else if (container == 0x0009) {
                            put16(value, 0);
                            value.append((char)4);
                            value.append((char)87);
                        } else if (container != 0x8022 && container != 0x7777) {
                            value = xorAddr(f.src, f.sport);
                        }
                        QByteArray hidden;
                        if (flags & 4) {
                            putAttr(hidden, 0x0025, QByteArray());
                        }
                        if (flags & 8) {
                            QByteArray pr;
                            put32(pr, 0x7effffff);
                            putAttr(hidden, 0x0024, pr);
                        }
                        if (flags & 16) {
                            putAttr(hidden, (quint16)(peer.controlling ? 0x802a : 0x8029), fr.bytes(8));
                        }
                        putAttr(hidden, 0x8022, fr.bytes((int)fr.range(0, 5) * 4));
                        value += hidden;
                        if (flags & 64) {
                            attrs.append({ 0x0006, goodUser });
                        }
                        attrs.append({ container, value });
                        integrity = 7;
                        f.data = buildStun(type, id, attrs, 7, fr.bytes(20), fingerprint);
                        what = kind == 9 ? QStringLiteral("binding success response with attributes smuggled inside an over-long attribute") : QStringLiteral("binding request with attributes smuggled inside an over-long attribute");
                    } else if (kind < 4) {
                        // a binding request made up from scratch
                        if (!user.isEmpty()) {
                            attrs.append({ 0x0006, user });
                        }
                        QByteArray pr;
                        put32(pr, (110u << 24) + (65535u << 8) + (256 - comp));
                        attrs.append({ 0x0024, pr });
                        if (useCandidate) {
                            attrs.append({ 0x0025, QByteArray() });
                        }
                        roleAttrs();
                        // the two top bits of the type are reserved (must be zero); an implementation that classifies a
                        // message with one mask and picks its key with another may be fooled by them
                        static const quint16 topBits[] = { 0x0000, 0x0000, 0x4000, 0x8000, 0xc000 };
                        const quint16 reserved = topBits[fr.uniform(5)];
                        f.data = buildStun(0x0001 | reserved, id, attrs, integrity, forgerKey, fingerprint);
                        what = reserved ? QStringLiteral("binding request with reserved type bits set") : QStringLiteral("binding request");
                    } else if (kind < 6) {
                        // a response to a check the target really has in flight (transaction id read off the wire)
                        const Seen *req = nullptr;
                        for (int i = seenRequests.size() - 1; i >= 0; --i) {
                            if (seenRequests[i].src == tsock.host() && seenRequests[i].sport == tsock.port()) {
                                req = &seenRequests[i];
                                break;
                            }
                        }
                        if (!req) {
                            return;
                        }
                        id = req->data.mid(8, 12);
                        if (srcMode != 0) {
                            f.src = req->dst;
                            f.sport = srcMode == 1 ? req->dport : (quint16)(req->dport + 100);
                        }
                        if (kind == 4) {
                            attrs.append({ 0x0020, xorAddr(tsock.host(), (quint16)tsock.port()) });
                            f.data = buildStun(0x0101, id, attrs, integrity, forgerKey, fingerprint);
                            what = QStringLiteral("binding success response to an open transaction");
                        } else {
                            QByteArray ec;
                            put16(ec, 0);
                            ec.append((char)4);
                            ec.append((char)87);
                            ec.append("Role Conflict");
                            attrs.append({ 0x0009, ec });
                            f.data = buildStun(0x0111, id, attrs, integrity, forgerKey, fingerprint);
                            what = QStringLiteral("binding error response to an open transaction");
                        }
                    } else {
                        // an honest request to the target, altered in flight: USE-CANDIDATE / other priority inserted,
                        // the original integrity bytes kept
                        const Seen *req = nullptr;
                        for (int i = seenRequests.size() - 1; i >= 0; --i) {
                            if (seenRequests[i].dst == tsock.host() && seenRequests[i].dport == tsock.port()) {
                                req = &seenRequests[i];
                                break;
                            }
                        }
                        if (!req) {
                            return;
                        }
                        const StunView v = parseStun(req->data);
                        if (!v.ok) {
                            return;
                        }
                        QByteArray b;
                        put16(b, v.type);
                        put16(b, 0);
                        put32(b, MAGIC);
                        b.append(kind == 6 ? v.id : id);
                        bool hadUse = false;
                        for (const auto &a : v.attrs) {
                            if (a.first == 0x0025) {
                                hadUse = true;
                            }
                        }
                        for (const auto &a : v.attrs) {
                            if (a.first == 0x8028) {
                                continue;
                            }
                            if (a.first == 0x0008 && !hadUse) {
                                putAttr(b, 0x0025, QByteArray());
                            }
                            if (a.first == 0x0024 && hadUse) {
                                QByteArray pr;
                                put32(pr, 0x7fffffff);
                                putAttr(b, 0x0024, pr);
                                continue;
                            }
                            if (a.first == 0x0025 && (flags & 64)) {
                                continue;   // strip the nomination
                            }
                            putAttr(b, a.first, a.second);
                        }
                        if (fingerprint) {
                            setLen(b, b.size() - 20 + 8);
                            QByteArray fv;
                            put32(fv, crc32(b) ^ 0x5354554eu);
                            putAttr(b, 0x8028, fv);
                        }
                        setLen(b, b.size() - 20);
                        f.data = b;
                        f.src = req->src;
                        f.sport = req->sport;
                        integrity = 5;
                        what = QStringLiteral("honest request altered in flight (stale integrity)");
                    }
                    if (kind == 10 || kind == 11) {
                        // not STUN at all: a zero-length datagram - legal UDP that anybody can send (payload that is not STUN is media
                        // for ICE and handed to the application whoever sent it, so a non-empty runt would legitimately show)
                        f.data = QByteArray();
                        integrity = 0;
                        what = QStringLiteral("zero length datagram");
                    }
                    static const char *integ[] = { "no integrity", "integrity under a made-up key", "truncated integrity", "zero integrity", "integrity keyed with the username", "stale integrity", "fingerprint followed by bogus integrity", "twenty arbitrary bytes as integrity" };
                    const QString line = QStringLiteral("forge: %1 with %2%3 from %4:%5 to %6 component %7").arg(what, QLatin1String(integ[integrity]), useCandidate && kind < 4 ? QStringLiteral(" and USE-CANDIDATE") : QString(), f.src.toString()).arg(f.sport).arg(target.name).arg(comp);
                    if (tr) {
                        tr->log(line);
                    }
                    out.forgeriesDelivered++;
                    out.faults[QStringLiteral("forged_") + what.section(QLatin1Char(' '), 0, 2).replace(QLatin1Char(' '), QLatin1Char('_')) + QStringLiteral("_") + QString::fromLatin1(integ[integrity]).replace(QLatin1Char(' '), QLatin1Char('_'))]++;
                    net.deliver(f);
                    settle();
                    }();
                }
                markRetransmissions();
                // datagrams addressed to the forger never reach an agent
                for (int i = net.inflight.size() - 1; i >= 0; --i) {
                    if (net.inflight[i].dst == attackerAddr) {
                        net.inflight.removeAt(i);
                    }
                }
                note(stateLine());
            }

            // ------------------------------------------------------------------ faults stop: finish the signalling, reliable network
            const qint64 endPhaseStart = g_now_ms;
            for (int a = 0; a < 2; ++a) {
                doSetup(QStringLiteral("creds"), a, 0);
            }
            for (int a = 0; a < 2; ++a) {
                while (!ag[a].candsLeft.isEmpty()) {
                    doSetup(QStringLiteral("cand"), a, 0);
                }
            }
            for (int a = 0; a < 2; ++a) {
                doSetup(QStringLiteral("start"), a, 0);
            }
            auto both = [&] { return ag[0].conn->isConnected() && ag[1].conn->isConnected(); };
            int guard = 0;
            while (guard++ < 4000) {
                while (!net.inflight.isEmpty()) {
                    net.deliverInflight(0);
                    settle();
                }
                if (both()) {
                    break;
                }
                if (g_now_ms > endPhaseStart + 29000 || !fireNext(60000)) {
                    break;
                }
            }
            out.bothConnected = both();
            out.connectedAt = g_now_ms;
            note(stateLine());
            if (!out.bothConnected) {
                out.problems << QStringLiteral("C15:honest_agents_not_connected|after the faults stopped (%1 ms of fault-free simulated time) A connected=%2, B connected=%3").arg(g_now_ms - endPhaseStart).arg(ag[0].conn->isConnected()).arg(ag[1].conn->isConnected());
            } else {
                for (int a = 0; a < 2; ++a) {
                    if (ag[a].connectedSignal != 1) {
                        out.problems << QStringLiteral("C15:connected_signal_count|%1 emitted connected() %2 times").arg(ag[a].name).arg(ag[a].connectedSignal);
                    }
                }
                // ---- application datagrams in both directions, unchanged
                Prng pr(mix64(plan.seed, 0xda7a));
                for (int c = 1; c <= comps; ++c) {
                    for (int a = 0; a < 2; ++a) {
                        for (int i = 0; i < 2; ++i) {
                            QByteArray payload = pr.bytes((int)pr.range(1, 1200));
                            payload[0] = (char)(0x80 | (payload[0] & 0x3f));   // RTP-like first byte: never mistaken for STUN
                            const int before = ag[1 - a].appReceived[c].size();
                            const qint64 rc = ag[a].conn->component(c)->sendDatagram(payload);
                            while (!net.inflight.isEmpty()) {
                                net.deliverInflight(0);
                                settle();
                            }
                            const auto &got = ag[1 - a].appReceived[c];
                            if (rc != payload.size() || got.size() != before + 1 || got.last() != payload) {
                                out.problems << QStringLiteral("C15:application_datagram_not_carried|%1 component %2 sent %3 bytes (rc %4); the peer received %5 new datagram(s)%6").arg(ag[a].name).arg(c).arg(payload.size()).arg(rc).arg(got.size() - before).arg(got.size() > before && got.last() != payload ? QStringLiteral(" with different content") : QString());
                            }
                        }
                    }
                }
            }
            out.probes[QStringLiteral("datagrams_sent")] += (int)net.sent;
            for (int a = 0; a < 2; ++a) {
                ag[a].conn->close();
            }
            net.onSend = nullptr;
            delete ag[0].conn;
            delete ag[1].conn;
            settle();
        }
        return out;
    }

    RunResult execute(const Plan &plan, bool verbose) override
    {
        RunResult res;
        Trace tr(verbose);
        bool hasForge = false;
        for (const auto &op : plan.ops) {
            hasForge = hasForge || op.kind == QLatin1String("forge");
        }
        // the honest history first (liveness half and the reference for the safety half)
        Trace quiet(false);
        Outcome base = runOnce(plan, false, hasForge ? &quiet : &tr);
        for (const auto &p : std::as_const(base.problems)) {
            res.violations.append(Violation { QStringLiteral("honest_negotiation"), p.section(QLatin1Char('|'), 0, 0), p.section(QLatin1Char('|'), 1), 0 });
        }
        res.faults = base.faults;
        res.probes = base.probes;
        res.steps = base.steps;
        res.simMs = base.connectedAt;
        if (hasForge) {
            Outcome forged = runOnce(plan, true, &tr);
            for (auto it = forged.faults.constBegin(); it != forged.faults.constEnd(); ++it) {
                if (it.key().startsWith(QLatin1String("forged_"))) {
                    res.faults[it.key()] += it.value();
                }
            }
            res.probes[QStringLiteral("forged_datagrams_delivered")] += forged.forgeriesDelivered;
            if (forged.forgeriesDelivered > 0 && forged.obs != base.obs) {
                int i = 0;
                while (i < forged.obs.size() && i < base.obs.size() && forged.obs[i] == base.obs[i]) {
                    ++i;
                }
                const QString f = i < forged.obs.size() ? forged.obs[i] : QStringLiteral("(end of history)");
                const QString b = i < base.obs.size() ? base.obs[i] : QStringLiteral("(end of history)");
                // what the agents did only because of the forged datagrams, most severe first
                QMap<QString, int> extra;
                for (const auto &l : std::as_const(forged.obs)) {
                    extra[l]++;
                }
                for (const auto &l : std::as_const(base.obs)) {
                    extra[l]--;
                }
                bool toForger = false, selected = false, pairState = false, sends = false, accepted = false, omitted = false;
                for (auto it = extra.constBegin(); it != extra.constEnd(); ++it) {
                    const QString &l = it.key();
                    if (it.value() > 0) {
                        toForger = toForger || (l.startsWith(QLatin1String("send ")) && l.contains(QLatin1String(ATTACKER_IP)));
                        selected = selected || l.contains(QLatin1String("ICE pair selected")) || l.contains(QLatin1String("signal: connected"));
                        pairState = pairState || l.contains(QLatin1String("ICE pair changed"));
                        sends = sends || l.startsWith(QLatin1String("send "));
                        accepted = accepted || l.contains(QLatin1String("log: STUN packet from"));
                    } else if (it.value() < 0) {
                        omitted = omitted || l.startsWith(QLatin1String("send "));
                    }
                }
                const QString cls = selected ? QStringLiteral("pair_selected_or_connected") : toForger ? QStringLiteral("agent_answers_the_forger") : pairState ? QStringLiteral("pair_state_changed") : sends ? QStringLiteral("agent_sends_a_datagram_it_would_not_have_sent") : omitted ? QStringLiteral("agent_omits_a_datagram_it_would_have_sent") : accepted ? QStringLiteral("forged_message_accepted_as_valid") : QStringLiteral("other");
                res.violations.append(Violation { QStringLiteral("forgery_had_an_effect"), QStringLiteral("C15:unauthenticated_stun_changed_agent_behaviour:") + cls,
                                                  QStringLiteral("with the forged datagrams the history of what the agents do differs from the same schedule without them; first difference at event %1: with forgeries '%2', without '%3'").arg(i).arg(f.left(200), b.left(200)), 0 });
            }
        }
        res.nontrivial = base.faults.value(QStringLiteral("first_transmission_lost")) > 0 || hasForge;
        res.caseKey = QString::number(tr.hash.value(), 16);
        for (const auto &v : std::as_const(res.violations)) {
            tr.log(QStringLiteral("VIOLATION ") + v.signature);
        }
        res.traceHash = tr.hash.value();
        res.trace = tr.lines;
        return res;
    }

    QVector<Plan> simplerKnobs(const Plan &p) override
    {
        QVector<Plan> out;
        auto with = [&](const char *k, qint64 v) {
            if (p.knob(QString::fromLatin1(k)) != v) {
                Plan q = p;
                q.knobs[QString::fromLatin1(k)] = v;
                out << q;
            }
        };
        with("comps", 1);
        with("addrsA", 1);
        with("addrsB", 1);
        return out;
    }
    QVector<Op> simplerOps(const Op &op) override
    {
        QVector<Op> out;
        if (op.kind == QLatin1String("forge")) {
            if (op.arg(5) != 0) {
                Op o = op;
                o.a[5] = 0;
                out << o;
            }
            if (op.arg(4) != 0) {
                Op o = op;
                o.a[4] = 0;
                out << o;
            }
        } else if ((op.kind == QLatin1String("deliver") || op.kind == QLatin1String("drop")) && op.arg(0) != 0) {
            Op o = op;
            o.a[0] = 0;
            out << o;
        }
        return out;
    }
};

static EngineRegistrar reg(new C15Engine);

}  // namespace
