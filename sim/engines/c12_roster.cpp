// C12 — the roster view is the last full roster plus authorised pushes, nothing else; presence table.
#include "session_world.h"

#include "QXmppPresence.h"
#include "QXmppRosterIq.h"
#include "QXmppRosterManager.h"

using namespace sim;

namespace {

struct MItem {
    QString name;
    QString subscription;
    QStringList groups;
    QString ask;              // subscription status (attribute "ask")
    bool approved = false;    // pre-approved subscription
    bool mixChannel = false;  // MIX annotation
    QString mixPid;
    bool unknown = false;   // a "don't care" push (own full JID) touched it: not compared until the next full roster
};

static const char *kContacts[] = { "romeo@montague.example", "juliet@capulet.example", "mercutio@montague.example", "tybalt@capulet.example",
                                   "nurse@capulet.example", "benvolio@montague.example", "paris@verona.example", "laurence@friary.example" };
static const char *kSubs[] = { "none", "to", "from", "both" };
static QByteArray itemFlags(Prng &r)
{
    QByteArray x;
    if (r.chance(0.15)) {
        x += " ask='subscribe'";
    }
    if (r.chance(0.15)) {
        x += " approved='true'";
    }
    return x;
}
static QByteArray itemMix(Prng &r)
{
    return r.chance(0.1) ? "<channel xmlns='urn:xmpp:mix:roster:0' participant-id='pid" + QByteArray::number((int)r.uniform(1000)) + "'/>" : QByteArray();
}
static const char *kNames[] = { "", "Romeo", "J.", "Friend \xc3\xa9", "x" };
static const char *kGroups[] = { "Friends", "Family", "Work" };
static const char *kResources[] = { "phone", "laptop", "orchard" };

static QString subName(QXmppRosterIq::Item::SubscriptionType t)
{
    switch (t) {
    case QXmppRosterIq::Item::None:
        return QStringLiteral("none");
    case QXmppRosterIq::Item::From:
        return QStringLiteral("from");
    case QXmppRosterIq::Item::To:
        return QStringLiteral("to");
    case QXmppRosterIq::Item::Both:
        return QStringLiteral("both");
    case QXmppRosterIq::Item::Remove:
        return QStringLiteral("remove");
    default:
        return QStringLiteral("notset");
    }
}

class C12Engine : public Engine
{
public:
    QString property() const override { return QStringLiteral("C12"); }
    QString describe() const override
    {
        return QStringLiteral("real: QXmppClient, QXmppRosterManager (cache, push authorisation, presence table), stream management / session transitions ; "
                              "stub: transport, ScriptedServer holding the roster request until the scheduler answers it and sending pushes/presences from arbitrary senders ; oracle: roster/presence reference model fed from the wire");
    }

    Plan generate(quint64 seed, const QString &tier) override
    {
        Plan p;
        Prng r(derive(seed, "c12"));
        auto &k = p.knobs;
        k[QStringLiteral("scramIter")] = 1;
        p.sknobs[QStringLiteral("sasl1")] = QStringLiteral("SCRAM-SHA-1");
        k[QStringLiteral("sm")] = r.weighted({ 25, 15, 60 });
        k[QStringLiteral("autoRoster")] = 0;
        k[QStringLiteral("autoReconnect")] = 0;
        k[QStringLiteral("otherJid")] = r.chance(0.15);
        p.ops.append(mkop(QStringLiteral("connect")));
        p.ops.append(mkop(QStringLiteral("pump")));
        const int n = (int)r.range(4, tier == QLatin1String("thorough") ? 50 : 30);
        for (int i = 0; i < n; ++i) {
            quint32 salt = (quint32)r.next();
            switch (r.weighted({ 14, 26, 22, 8, 10, 9, 11 })) {
            case 0:
                p.ops.append(mkop(QStringLiteral("roster"), { (qint64)r.range(0, 255) }, {}, salt));   // bitmask of contacts in the full roster
                break;
            case 1:
                // sender variant, action (0 add/update, 1 remove), contact
                p.ops.append(mkop(QStringLiteral("push"), { r.weighted({ 25, 25, 10, 20, 20 }), r.weighted({ 70, 30 }), (qint64)r.uniform(8) }, {}, salt));
                break;
            case 2:
                p.ops.append(mkop(QStringLiteral("pres"), { (qint64)r.uniform(8), (qint64)r.uniform(3), r.weighted({ 65, 35 }) }, {}, salt));
                break;
            case 3:
                p.ops.append(mkop(QStringLiteral("dl"), { (qint64)r.uniform(2) }, {}, salt));
                break;
            case 4:
                p.ops.append(mkop(QStringLiteral("pump"), {}, {}, salt));
                break;
            case 5:
                p.ops.append(mkop(QStringLiteral("lose"), { r.weighted({ 25, 45, 30 }) }, {}, salt));
                break;
            case 6:
                p.ops.append(mkop(QStringLiteral("reconn"), { r.weighted({ 45, 30, 25 }) }, {}, salt));
                if (r.chance(0.8)) {
                    p.ops.append(mkop(QStringLiteral("pump"), {}, {}, (quint32)r.next()));
                }
                break;
            }
        }
        p.ops.append(mkop(QStringLiteral("pump")));
        return p;
    }

    RunResult execute(const Plan &plan, bool verbose) override
    {
        RunResult res;
        Trace tr(verbose);
        {
            SessionWorld w(plan, tr, res);
            QObject ctx;
            // ---------------- reference model (fed from what is delivered to the client)
            bool mReceived = false;
            QMap<QString, MItem> mItems;
            QMap<QString, QSet<QString>> mPres;
            QSet<QString> pushedThisSession;
            QStringList pendingRosterGets;      // ids of roster requests the server is holding
            QSet<QString> rosterGetIds;         // every roster request id ever seen
            QString ownFull;
            int pushNo = 0;
            bool sawForeignPush = false, sawTransition = false;
            QSet<QString> foreignPushIds;       // ids of pushes from clearly different entities: must not be acknowledged

            w.onNewLink = [&](SimLink *l) {
                l->onWrite = [&](int from, const QByteArray &d) {
                    if (from != 0 || !d.startsWith("<iq")) {
                        return;
                    }
                    QDomDocument doc;
                    QDomElement el = simxml::parse(d, doc);
                    const QString type = el.attribute(QStringLiteral("type"));
                    const QString id = el.attribute(QStringLiteral("id"));
                    if (type == QLatin1String("get") && el.firstChildElement().namespaceURI() == QLatin1String("jabber:iq:roster")) {
                        if (!rosterGetIds.contains(id)) {
                            rosterGetIds.insert(id);
                        }
                        if (!pendingRosterGets.contains(id)) {
                            pendingRosterGets.append(id);
                        }
                    }
                    if (type == QLatin1String("result") && foreignPushIds.contains(id)) {
                        w.violation(QStringLiteral("foreign_push_acknowledged"), QStringLiteral("C12:push_from_other_entity_acknowledged"),
                                    QStringLiteral("the client sent a result for roster push '%1' that came from another entity: %2").arg(id, QString::fromUtf8(d.left(160))));
                    }
                };
                l->onDeliver = [&](int dir, const QByteArray &bytes) {
                    if (dir != 1) {
                        return;
                    }
                    simxml::Framer f;
                    f.feed(bytes);
                    for (const auto &it : f.take()) {
                        if (it.kind != simxml::Item::Element) {
                            continue;
                        }
                        QDomDocument doc;
                        QDomElement el = simxml::parse(it.text, doc);
                        const QString ownBare = ownFull.section(QLatin1Char('/'), 0, 0);
                        if (el.tagName() == QLatin1String("presence")) {
                            const QString from = el.attribute(QStringLiteral("from"));
                            const QString bare = from.section(QLatin1Char('/'), 0, 0), resource = from.section(QLatin1Char('/'), 1);
                            const QString type = el.attribute(QStringLiteral("type"));
                            if (bare.isEmpty()) {
                                continue;
                            }
                            if (type.isEmpty()) {
                                mPres[bare].insert(resource);
                            } else if (type == QLatin1String("unavailable")) {
                                mPres[bare].remove(resource);
                            }
                            continue;
                        }
                        if (el.tagName() != QLatin1String("iq")) {
                            continue;
                        }
                        const QDomElement q = el.firstChildElement();
                        if (q.namespaceURI() != QLatin1String("jabber:iq:roster")) {
                            continue;
                        }
                        const QString type = el.attribute(QStringLiteral("type"));
                        const QString from = el.attribute(QStringLiteral("from"));
                        auto readItem = [](const QDomElement &ie) {
                            MItem m;
                            m.name = ie.attribute(QStringLiteral("name"));
                            m.subscription = ie.attribute(QStringLiteral("subscription"));
                            for (auto g = ie.firstChildElement(QStringLiteral("group")); !g.isNull(); g = g.nextSiblingElement(QStringLiteral("group"))) {
                                m.groups << g.text();
                            }
                            m.groups.sort();
                            m.ask = ie.attribute(QStringLiteral("ask"));
                            const QString ap = ie.attribute(QStringLiteral("approved"));
                            m.approved = ap == QLatin1String("true") || ap == QLatin1String("1");
                            const QDomElement ch = ie.firstChildElement(QStringLiteral("channel"));
                            m.mixChannel = !ch.isNull() && ch.namespaceURI() == QLatin1String("urn:xmpp:mix:roster:0");
                            m.mixPid = m.mixChannel ? ch.attribute(QStringLiteral("participant-id")) : QString();
                            return m;
                        };
                        if (type == QLatin1String("result") && pendingRosterGets.contains(el.attribute(QStringLiteral("id")))) {
                            pendingRosterGets.removeAll(el.attribute(QStringLiteral("id")));
                            mItems.clear();
                            for (auto ie = q.firstChildElement(QStringLiteral("item")); !ie.isNull(); ie = ie.nextSiblingElement(QStringLiteral("item"))) {
                                mItems[ie.attribute(QStringLiteral("jid"))] = readItem(ie);
                            }
                            mReceived = true;
                            w.probe("full_roster_delivered");
                        } else if (type == QLatin1String("set")) {
                            const bool authorised = from.isEmpty() || from == ownBare;
                            const bool dontCare = !authorised && from.section(QLatin1Char('/'), 0, 0) == ownBare;
                            for (auto ie = q.firstChildElement(QStringLiteral("item")); !ie.isNull(); ie = ie.nextSiblingElement(QStringLiteral("item"))) {
                                const QString jid = ie.attribute(QStringLiteral("jid"));
                                if (authorised) {
                                    pushedThisSession.insert(jid);
                                    if (ie.attribute(QStringLiteral("subscription")) == QLatin1String("remove")) {
                                        mItems.remove(jid);
                                    } else {
                                        mItems[jid] = readItem(ie);
                                    }
                                } else if (dontCare) {
                                    pushedThisSession.insert(jid);
                                    mItems[jid].unknown = true;
                                }
                            }
                        }
                    }
                };
            };

            // the server holds every roster request until the scheduler answers it
            w.server->onSessionStanza = [&](ServerConn &, const QDomElement &el, const QByteArray &) {
                return el.tagName() == QLatin1String("iq") && el.attribute(QStringLiteral("type")) == QLatin1String("get") &&
                    el.firstChildElement().namespaceURI() == QLatin1String("jabber:iq:roster");
            };
            w.createClient(QXmppClient::BasicExtensions);
            auto *roster = w.client->findExtension<QXmppRosterManager>();
            QObject::connect(w.client, &QXmppClient::connected, &ctx, [&] {
                if (auto *c = w.server->current()) {
                    ownFull = c->fullJid;
                }
                // resumed or not is the server's word (what it answered on this connection), not the library's opinion
                const bool resumedTruth = w.server->current() ? w.server->current()->resumedHere : w.client->streamManagementState() == QXmppClient::ResumedStream;
                if (!resumedTruth) {
                    // nothing of an earlier session's view survives into a session that is not a resumption of it
                    mReceived = false;
                    mItems.clear();
                    mPres.clear();
                    pushedThisSession.clear();
                    pendingRosterGets.clear();
                    if (w.connectedSignals > 1) {
                        sawTransition = true;
                        w.probe("nonresumed_session_opened");
                    }
                } else {
                    w.probe("session_resumed");
                    sawTransition = true;
                }
            });

            auto compare = [&](const QString &) {
                if (!w.client->isConnected()) {
                    return;
                }
                const QStringList view = roster->getRosterBareJids();
                if (!mReceived) {
                    // no full roster on this session (chain) yet: only authorised pushes of this session may be visible
                    if (roster->isRosterReceived()) {
                        w.violation(QStringLiteral("stale_roster"), QStringLiteral("C12:roster_reported_received_without_roster_on_this_session"),
                                    QStringLiteral("isRosterReceived() is true although no full roster has been delivered on this session; view: %1").arg(view.join(QLatin1Char(' '))));
                    }
                    for (const auto &jid : view) {
                        if (!pushedThisSession.contains(jid)) {
                            w.violation(QStringLiteral("stale_roster"), QStringLiteral("C12:entry_of_earlier_session_survives"),
                                        QStringLiteral("'%1' is in the roster view but was neither in a full roster nor in an authorised push of this session").arg(jid));
                        }
                    }
                    for (auto it = mPres.begin(); it != mPres.end(); ++it) {
                        Q_UNUSED(it);
                    }
                } else {
                    QSet<QString> viewSet(view.begin(), view.end());
                    for (auto it = mItems.begin(); it != mItems.end(); ++it) {
                        if (it->unknown) {
                            viewSet.remove(it.key());
                            continue;
                        }
                        if (!viewSet.contains(it.key())) {
                            w.violation(QStringLiteral("roster_differs"), QStringLiteral("C12:entry_missing_from_view"),
                                        QStringLiteral("'%1' is in the model (last full roster + authorised pushes) but not in the view").arg(it.key()));
                            continue;
                        }
                        viewSet.remove(it.key());
                        const auto e = roster->getRosterEntry(it.key());
                        QStringList groups = e.groups().values();
                        groups.sort();
                        if (e.subscriptionStatus() != it->ask || e.isApproved() != it->approved || e.isMixChannel() != it->mixChannel || e.mixParticipantId() != it->mixPid) {
                            w.violation(QStringLiteral("roster_differs"), QStringLiteral("C12:entry_flags_differ"),
                                        QStringLiteral("'%1': view ask='%2' approved=%3 mix=%4 pid='%5', model ask='%6' approved=%7 mix=%8 pid='%9'")
                                            .arg(it.key(), e.subscriptionStatus()).arg(e.isApproved()).arg(e.isMixChannel()).arg(e.mixParticipantId(), it->ask).arg(it->approved).arg(it->mixChannel).arg(it->mixPid));
                        }
                        if (e.name() != it->name || subName(e.subscriptionType()) != (it->subscription.isEmpty() ? QStringLiteral("notset") : it->subscription) || groups != it->groups) {
                            w.violation(QStringLiteral("roster_differs"), QStringLiteral("C12:entry_fields_differ"),
                                        QStringLiteral("'%1': view name='%2' sub=%3 groups=[%4], model name='%5' sub=%6 groups=[%7]")
                                            .arg(it.key(), e.name(), subName(e.subscriptionType()), groups.join(QLatin1Char(',')), it->name, it->subscription, it->groups.join(QLatin1Char(','))));
                        }
                    }
                    for (const auto &extra : viewSet) {
                        w.violation(QStringLiteral("roster_differs"), QStringLiteral("C12:entry_in_view_not_in_model"),
                                    QStringLiteral("'%1' is in the view but neither in the last full roster nor in a later authorised push").arg(extra));
                    }
                }
                // presence table
                for (const char *cj : kContacts) {
                    const QString jid = QString::fromLatin1(cj);
                    QStringList got = roster->getResources(jid);
                    got.sort();
                    QStringList want = mPres.value(jid).values();
                    want.sort();
                    if (got != want) {
                        w.violation(QStringLiteral("presence_differs"), QStringLiteral("C12:presence_table_differs"),
                                    QStringLiteral("'%1': resources in the table [%2], resources whose latest presence on the session was available [%3]").arg(jid, got.join(QLatin1Char(',')), want.join(QLatin1Char(','))));
                    }
                }
            };

            for (const auto &op : plan.ops) {
                Prng r(mix64(plan.seed, op.salt));
                const QString &k = op.kind;
                ServerConn *conn = w.server->current();
                const QString full = conn ? conn->fullJid : QString();
                const QString bare = full.section(QLatin1Char('/'), 0, 0);
                if (k == QLatin1String("roster")) {
                    if (conn && conn->sessionReady && !pendingRosterGets.isEmpty()) {
                        const QString id = pendingRosterGets.last();
                        QByteArray x = "<iq type='result' id='" + id.toUtf8() + "' to='" + full.toUtf8() + "'><query xmlns='jabber:iq:roster'>";
                        for (int i = 0; i < 8; ++i) {
                            if (op.arg(0) & (1 << i)) {
                                x += "<item jid='" + QByteArray(kContacts[i]) + "'";
                                const char *nm = kNames[r.uniform(5)];
                                if (*nm) {
                                    x += " name='" + QByteArray(nm) + "'";
                                }
                                x += " subscription='" + QByteArray(kSubs[r.uniform(4)]) + "'" + itemFlags(r) + ">";
                                if (r.chance(0.4)) {
                                    x += "<group>" + QByteArray(kGroups[r.uniform(3)]) + "</group>";
                                }
                                x += itemMix(r) + "</item>";
                            }
                        }
                        x += "</query></iq>";
                        conn->sendStanza(x);
                    }
                } else if (k == QLatin1String("push")) {
                    if (conn && conn->sessionReady) {
                        QString from;
                        bool absent = false;
                        switch (op.arg(0)) {
                        case 0:
                            absent = true;
                            break;
                        case 1:
                            from = bare;
                            break;
                        case 2:
                            from = full;
                            w.fault("push_from_own_full_jid");
                            break;
                        case 3:
                            from = QStringLiteral("mallory@stranger.example/x");
                            break;
                        default:
                            // look-alikes: extended at either end, the separator replaced (same length, same localpart,
                            // same domain), a resource of a look-alike, a prefix of the own address, the bare domain
                            switch (r.uniform(7)) {
                            case 0: from = QStringLiteral("x") + bare; break;
                            case 1: from = bare + QStringLiteral(".evil"); break;
                            case 2: from = QString(bare).replace(QLatin1Char('@'), QLatin1Char('.')); break;
                            case 3: from = QString(bare).replace(QLatin1Char('@'), QLatin1Char('-')) + QStringLiteral("/r"); break;
                            case 4: from = bare + QStringLiteral(".evil/balcony"); break;
                            case 5: from = bare.left(bare.size() - 1); break;
                            default: from = bare.section(QLatin1Char('@'), 0, 0) + QStringLiteral("@other.") + bare.section(QLatin1Char('@'), 1);
                            }
                        }
                        const bool foreign = op.arg(0) >= 3;
                        const QString id = QStringLiteral("push%1").arg(++pushNo);
                        if (foreign) {
                            sawForeignPush = true;
                            foreignPushIds.insert(id);
                            w.fault("push_from_other_entity");
                        }
                        QByteArray x = "<iq type='set' id='" + id.toUtf8() + "'" + (absent ? QByteArray() : " from='" + from.toUtf8() + "'") + " to='" + full.toUtf8() + "'><query xmlns='jabber:iq:roster'><item jid='" + QByteArray(kContacts[op.arg(2) % 8]) + "'";
                        if (op.arg(1)) {
                            x += " subscription='remove'/>";
                        } else if (r.chance(0.3) && mItems.contains(QString::fromLatin1(kContacts[op.arg(2) % 8])) && !mItems[QString::fromLatin1(kContacts[op.arg(2) % 8])].unknown) {
                            // the same item again, only one of the less prominent attributes differs (pre-approval, pending
                            // subscription request, MIX annotation)
                            MItem cur = mItems[QString::fromLatin1(kContacts[op.arg(2) % 8])];
                            switch (r.uniform(3)) {
                            case 0: cur.approved = !cur.approved; break;
                            case 1: cur.ask = cur.ask.isEmpty() ? QStringLiteral("subscribe") : QString(); break;
                            default:
                                cur.mixChannel = !cur.mixChannel;
                                cur.mixPid = cur.mixChannel ? QStringLiteral("pid%1").arg(r.uniform(1000)) : QString();
                            }
                            w.fault("push_changes_only_a_flag");
                            if (!cur.name.isEmpty()) {
                                x += " name='" + simxml::esc(cur.name).toUtf8() + "'";
                            }
                            x += " subscription='" + (cur.subscription.isEmpty() ? QByteArray("none") : cur.subscription.toUtf8()) + "'";
                            if (!cur.ask.isEmpty()) {
                                x += " ask='" + cur.ask.toUtf8() + "'";
                            }
                            if (cur.approved) {
                                x += " approved='true'";
                            }
                            x += ">";
                            for (const auto &g : std::as_const(cur.groups)) {
                                x += "<group>" + simxml::esc(g).toUtf8() + "</group>";
                            }
                            if (cur.mixChannel) {
                                x += "<channel xmlns='urn:xmpp:mix:roster:0' participant-id='" + cur.mixPid.toUtf8() + "'/>";
                            }
                            x += "</item>";
                        } else {
                            const char *nm = kNames[r.uniform(5)];
                            if (*nm) {
                                x += " name='" + QByteArray(nm) + "'";
                            }
                            x += " subscription='" + QByteArray(kSubs[r.uniform(4)]) + "'" + itemFlags(r) + ">";
                            if (r.chance(0.4)) {
                                x += "<group>" + QByteArray(kGroups[r.uniform(3)]) + "</group>";
                            }
                            x += itemMix(r) + "</item>";
                        }
                        x += "</query></iq>";
                        conn->sendStanza(x);
                    }
                } else if (k == QLatin1String("pres")) {
                    if (conn && conn->sessionReady) {
                        const QByteArray from = QByteArray(kContacts[op.arg(0) % 8]) + "/" + kResources[op.arg(1) % 3];
                        conn->sendStanza("<presence from='" + from + "' to='" + full.toUtf8() + "'" + (op.arg(2) ? " type='unavailable'" : "") + "/>");
                    }
                } else if (k == QLatin1String("dl")) {
                    w.deliver((int)op.arg(0));
                } else if (k == QLatin1String("lose")) {
                    if (w.client->isConnected()) {
                        switch (op.arg(0)) {
                        case 0:
                            w.serverClose();
                            w.pump(nullptr);
                            break;
                        case 1:
                            w.cutLink();
                            break;
                        default:
                            if (conn) {
                                w.fault("peer_fin_without_stream_end");
                                conn->closeStream(false);
                                w.pump(nullptr);
                            }
                        }
                    }
                } else if (k == QLatin1String("reconn")) {
                    if (w.client->state() == QXmppClient::DisconnectedState && !w.connectPending) {
                        auto &sp = w.server->profile;
                        sp.quirks.remove(QStringLiteral("resume"));
                        sp.quirks.remove(QStringLiteral("enable"));
                        switch (op.arg(0)) {
                        case 1:
                            sp.quirks[QStringLiteral("resume")] = QStringLiteral("refuse");
                            w.fault("resume_refused_new_session");
                            break;
                        case 2:
                            sp.quirks[QStringLiteral("resume")] = QStringLiteral("refuse");
                            sp.quirks[QStringLiteral("enable")] = QStringLiteral("refuse");
                            w.fault("new_session_without_sm");
                            break;
                        default:
                            break;
                        }
                        w.connectClient();
                        w.resolveConnect(true);
                    }
                } else {
                    w.applyCommon(op);
                }
                settle();
                compare(k);
                w.afterStep();
            }
            w.pump(nullptr);
            compare(QStringLiteral("end"));
            res.nontrivial = sawForeignPush && sawTransition;
            w.client->disconnectFromServer();
            w.pump(nullptr);
        }
        res.traceHash = tr.hash.value();
        res.trace = tr.lines;
        return res;
    }
    bool removable(const Plan &plan, int i) override { return plan.ops[i].kind != QLatin1String("connect"); }
    QVector<Plan> simplerKnobs(const Plan &p) override
    {
        QVector<Plan> out;
        if (p.knob(QStringLiteral("otherJid"))) {
            Plan q = p;
            q.knobs[QStringLiteral("otherJid")] = 0;
            out << q;
        }
        return out;
    }
};

static EngineRegistrar reg(new C12Engine);

}  // namespace
