// C07 — every request completes exactly once, and only by a reply from the entity asked.
#include "session_world.h"

#include "QXmppBlockingManager.h"
#include "QXmppDiscoveryManager.h"
#include "QXmppE2eeExtension.h"
#include "QXmppEntityTimeManager.h"
#include "QXmppExternalServiceDiscoveryManager.h"
#include "QXmppIq.h"
#include <QMimeType>
#include <QMimeDatabase>
#include "QXmppEntityTimeIq.h"
#include "QXmppDiscoveryIq.h"
#include "QXmppExternalService.h"
#include "QXmppExternalServiceDiscoveryIq.h"
#include "QXmppPubSubAffiliation.h"
#include "QXmppPubSubSubscription.h"
#include "QXmppPubSubNodeConfig.h"
#include "QXmppMixInfoItem.h"
#include "QXmppMixInvitation.h"
#include "QXmppPubSubSubscribeOptions.h"
#include "QXmppMixParticipantItem.h"
#include "QXmppMixConfigItem.h"
#include "QXmppHttpUploadIq.h"
#include "QXmppGeolocItem.h"
#include "QXmppRosterIq.h"
#include "QXmppMamIq.h"
#include "QXmppMamManager.h"
#include "QXmppMessage.h"
#include "QXmppMixManager.h"
#include "QXmppMovedManager.h"
#include "QXmppPingIq.h"
#include "QXmppPromise.h"
#include "QXmppPubSubManager.h"
#include "QXmppRosterManager.h"
#include "QXmppTask.h"
#include "QXmppUserTuneItem.h"
#include "QXmppUploadRequestManager.h"
#include "QXmppUserLocationManager.h"
#include "QXmppUserTuneManager.h"
#include "QXmppVCardIq.h"
#include "QXmppVCardManager.h"
#include "QXmppVersionManager.h"

using namespace sim;

namespace {

struct Tracked {
    int no = 0;
    QString what;            // kind of request
    int fired = 0;
    bool error = false;
    bool raw = false;
    bool indeterminate = false;   // a "don't care" reply was sent for it: only exactly-once-by-the-end is asserted
    bool retried = false;
    int pendingJobs = 0;     // deferred e2ee jobs it is waiting for
    QSet<QString> wireIds;   // ids of the IQs the library wrote on its behalf
    int issuedStep = 0;
    int firedStep = -1;
    QString firedDuring;     // id of the element being delivered when it fired ("" = not during a delivery)
};
using TrackedPtr = std::shared_ptr<Tracked>;

struct WireReq {
    QString id, to, ns;
    TrackedPtr owner;
    bool consumed = false;   // a legitimate reply has been delivered
    int conn = 0;
};

// deferred end-to-end encryption jobs: completed by the scheduler, in scheduler-chosen order
struct Job {
    std::function<void(bool ok)> complete;
    TrackedPtr owner;
};

class StubE2ee : public QXmppE2eeExtension
{
public:
    QList<Job> *jobs = nullptr;
    std::function<TrackedPtr()> currentOwner;

    QXmppTask<MessageEncryptResult> encryptMessage(QXmppMessage &&m, const std::optional<QXmppSendStanzaParams> &) override
    {
        QXmppPromise<MessageEncryptResult> p;
        auto msg = std::make_shared<QXmppMessage>(std::move(m));
        jobs->append(Job { [p, msg](bool ok) mutable {
                              if (ok) {
                                  p.finish(std::make_unique<QXmppMessage>(*msg));
                              } else {
                                  p.finish(QXmppError { QStringLiteral("simulated encryption error"), {} });
                              }
                          },
                           currentOwner() });
        return p.task();
    }
    QXmppTask<MessageDecryptResult> decryptMessage(QXmppMessage &&m) override
    {
        QXmppPromise<MessageDecryptResult> p;
        auto msg = std::make_shared<QXmppMessage>(std::move(m));
        auto owner = currentOwner();
        if (owner) {
            owner->pendingJobs++;
        }
        jobs->append(Job { [p, msg, owner](bool ok) mutable {
                              if (owner) {
                                  owner->pendingJobs--;
                              }
                              if (ok) {
                                  p.finish(QXmppMessage(*msg));
                              } else {
                                  p.finish(QXmppError { QStringLiteral("simulated decryption error"), {} });
                              }
                          },
                           owner });
        return p.task();
    }
    QXmppTask<IqEncryptResult> encryptIq(QXmppIq &&iq, const std::optional<QXmppSendStanzaParams> &) override
    {
        QXmppPromise<IqEncryptResult> p;
        auto copy = std::make_shared<QXmppIq>(iq);
        auto owner = currentOwner();
        if (owner) {
            owner->pendingJobs++;
        }
        jobs->append(Job { [p, copy, owner](bool ok) mutable {
                              if (owner) {
                                  owner->pendingJobs--;
                              }
                              if (ok) {
                                  p.finish(std::make_unique<QXmppIq>(*copy));
                              } else {
                                  p.finish(QXmppError { QStringLiteral("simulated encryption error"), {} });
                              }
                          },
                           owner });
        return p.task();
    }
    QXmppTask<IqDecryptResult> decryptIq(const QDomElement &el) override
    {
        QXmppPromise<IqDecryptResult> p;
        auto owner = currentOwner();
        if (owner) {
            owner->pendingJobs++;
        }
        QDomElement copy = el;
        jobs->append(Job { [p, copy, owner](bool ok) mutable {
                              if (owner) {
                                  owner->pendingJobs--;
                              }
                              if (ok) {
                                  p.finish(QDomElement(copy));
                              } else {
                                  p.finish(NotEncrypted {});
                              }
                          },
                           owner });
        return p.task();
    }
    bool isEncrypted(const QDomElement &el) override
    {
        for (auto c = el.firstChildElement(); !c.isNull(); c = c.nextSiblingElement()) {
            if (c.tagName() == QLatin1String("encrypted")) {
                return true;
            }
        }
        return false;
    }
    bool isEncrypted(const QXmppMessage &m) override { return m.encryptionMethod() != QXmpp::NoEncryption; }
};

template<typename V>
static bool holdsError(const V &v)
{
    return std::holds_alternative<QXmppError>(v);
}

static const char *kContactBare = "bob@contacts.example";
static const char *kContactFull = "bob@contacts.example/phone";
static const char *kService = "pubsub.example.org";

class C07Engine : public Engine
{
public:
    QString property() const override { return QStringLiteral("C07"); }
    QString describe() const override
    {
        return QStringLiteral("real: QXmppClient, OutgoingIqManager, StreamAckManager, QXmppFutureUtils chaining, disco/time/vcard/roster/blocking/extdisco/pubsub/MIX/MAM/PEP/moved/upload managers ; "
                              "stub: transport, ScriptedServer holding requests until the scheduler answers them (any sender, any order, twice, never), deferred StubE2ee jobs, simulated clock");
    }

    static constexpr int kThunks = 58;

    Plan generate(quint64 seed, const QString &tier) override
    {
        Plan p;
        Prng r(derive(seed, "c07"));
        auto &k = p.knobs;
        k[QStringLiteral("sm")] = r.weighted({ 30, 20, 50 });
        // the server may bind another address than the configured one; the application reconnects with its stored configuration
        k[QStringLiteral("otherJid")] = (qint64)(mix64(seed, 0x07e1) % 100 < 15);
        k[QStringLiteral("scramIter")] = 1;
        p.sknobs[QStringLiteral("sasl1")] = QStringLiteral("SCRAM-SHA-1");
        k[QStringLiteral("autoReconnect")] = 0;
        k[QStringLiteral("ext")] = r.chance(0.6);
        k[QStringLiteral("e2ee")] = r.chance(0.4);
        k[QStringLiteral("retry")] = r.chance(0.3);
        p.ops.append(mkop(QStringLiteral("connect")));
        p.ops.append(mkop(QStringLiteral("pump")));
        const int n = (int)r.range(4, tier == QLatin1String("thorough") ? 50 : 32);
        for (int i = 0; i < n; ++i) {
            quint32 salt = (quint32)r.next();
            switch (r.weighted({ 18, 4, 16, 30, 8, 7, 7, 6, 4 })) {
            case 0:
                p.ops.append(mkop(QStringLiteral("raw"), { (qint64)r.uniform(5), r.weighted({ 70, 10, 10, 10 }) }, {}, salt));
                break;
            case 1:
                p.ops.append(mkop(QStringLiteral("sens"), { (qint64)r.uniform(5) }, {}, salt));
                break;
            case 2:
                p.ops.append(mkop(QStringLiteral("mgr"), { (qint64)r.uniform(kThunks) }, {}, salt));
                break;
            case 3:
                p.ops.append(mkop(QStringLiteral("reply"), { (qint64)r.uniform(8), r.weighted({ 32, 27, 18, 13, 5, 5 }), r.weighted({ 40, 12, 8, 17, 17, 6 }), r.chance(0.15) }, {}, salt));
                break;
            case 4:
                p.ops.append(mkop(QStringLiteral("dec"), { (qint64)r.uniform(6), r.chance(0.8) }, {}, salt));
                break;
            case 5:
                p.ops.append(mkop(QStringLiteral("dl"), { (qint64)r.uniform(2) }, {}, salt));
                break;
            case 6:
                p.ops.append(mkop(QStringLiteral("pump"), {}, {}, salt));
                break;
            case 7:
                p.ops.append(mkop(QStringLiteral("lose"), { r.weighted({ 25, 40, 35, 12 }) }, {}, salt));
                break;
            case 8:
                p.ops.append(mkop(QStringLiteral("reconn"), { r.weighted({ 50, 35, 15 }) }, {}, salt));
                if (r.chance(0.85)) {
                    p.ops.append(mkop(QStringLiteral("pump"), {}, {}, (quint32)r.next()));
                }
                break;
            }
        }
        return p;
    }

    RunResult execute(const Plan &plan, bool verbose) override
    {
        RunResult res;
        Trace tr(verbose);
        {
            SessionWorld w(plan, tr, res);
            QObject ctx;
            QList<TrackedPtr> all;
            QList<WireReq> wire;                 // every IQ get/set the client wrote for a tracked request
            QList<Job> jobs;
            TrackedPtr issuing;                  // request whose API call is running right now
            QString deliveringId;                // id attribute of the IQ being delivered to the client right now
            bool deliveringForged = false;
            bool deliveringRequest = false;   // the iq being delivered is a request (get/set) that merely reuses the id of a pending request
            TrackedPtr deliveringOwner;
            int maxOutstanding = 0;
            bool adversarialBetween = false;
            const bool retry = plan.knob(QStringLiteral("retry"));
            bool clientAlive = true;
            int counter = 0;

            auto ownerOfId = [&](const QString &id) -> TrackedPtr {
                for (const auto &wr : wire) {
                    if (wr.id == id) {
                        return wr.owner;
                    }
                }
                return nullptr;
            };
            auto outstandingCount = [&] {
                int n = 0;
                for (const auto &t : all) {
                    n += t->fired == 0;
                }
                return n;
            };

            StubE2ee *e2ee = nullptr;

            w.onNewLink = [&](SimLink *l) {
                l->onWrite = [&](int from, const QByteArray &d) {
                    if (from != 0 || !d.startsWith("<iq")) {
                        return;
                    }
                    QDomDocument doc;
                    QDomElement el = simxml::parse(d, doc);
                    const QString type = el.attribute(QStringLiteral("type"));
                    if (type != QLatin1String("get") && type != QLatin1String("set")) {
                        return;
                    }
                    TrackedPtr owner = issuing ? issuing : deliveringOwner;
                    if (!owner) {
                        return;
                    }
                    const QString id = el.attribute(QStringLiteral("id"));
                    // a resend (stream management) of a request that is already known
                    for (auto &wr : wire) {
                        if (wr.id == id && wr.owner == owner) {
                            wr.conn = w.linkIndex();
                            return;
                        }
                    }
                    owner->wireIds.insert(id);
                    wire.append(WireReq { id, el.attribute(QStringLiteral("to")), el.firstChildElement().namespaceURI(), owner, false, w.linkIndex() });
                };
            };

            w.createClient(QXmppClient::NoExtensions);
            QXmppDiscoveryManager *disco = nullptr;
            QXmppEntityTimeManager *timeM = nullptr;
            QXmppVCardManager *vcard = nullptr;
            QXmppRosterManager *roster = nullptr;
            QXmppBlockingManager *blocking = nullptr;
            QXmppExternalServiceDiscoveryManager *extdisco = nullptr;
            QXmppPubSubManager *pubsub = nullptr;
            QXmppMixManager *mix = nullptr;
            QXmppMamManager *mam = nullptr;
            QXmppUserTuneManager *tune = nullptr;
            QXmppUserLocationManager *loc = nullptr;
            QXmppMovedManager *moved = nullptr;
            QXmppUploadRequestManager *upload = nullptr;
            const bool ext = plan.knob(QStringLiteral("ext"));
            if (ext) {
                disco = w.client->addNewExtension<QXmppDiscoveryManager>();
                roster = w.client->addNewExtension<QXmppRosterManager>(w.client);
                timeM = w.client->addNewExtension<QXmppEntityTimeManager>();
                vcard = w.client->addNewExtension<QXmppVCardManager>();
                blocking = w.client->addNewExtension<QXmppBlockingManager>();
                extdisco = w.client->addNewExtension<QXmppExternalServiceDiscoveryManager>();
                pubsub = w.client->addNewExtension<QXmppPubSubManager>();
                mix = w.client->addNewExtension<QXmppMixManager>();
                mam = w.client->addNewExtension<QXmppMamManager>();
                tune = w.client->addNewExtension<QXmppUserTuneManager>();
                loc = w.client->addNewExtension<QXmppUserLocationManager>();
                moved = w.client->addNewExtension<QXmppMovedManager>();
                upload = w.client->addNewExtension<QXmppUploadRequestManager>();
            }
            if (plan.knob(QStringLiteral("e2ee"))) {
                e2ee = new StubE2ee;
                e2ee->jobs = &jobs;
                e2ee->currentOwner = [&]() -> TrackedPtr { return issuing ? issuing : deliveringOwner; };
                w.client->setEncryptionExtension(e2ee);
            }

            // the server never answers a tracked request by itself; the scheduler does
            w.server->onSessionStanza = [&](ServerConn &, const QDomElement &el, const QByteArray &) {
                if (el.tagName() != QLatin1String("iq")) {
                    return false;
                }
                const QString type = el.attribute(QStringLiteral("type"));
                if (type != QLatin1String("get") && type != QLatin1String("set")) {
                    return true;   // the client's own replies
                }
                return (bool)ownerOfId(el.attribute(QStringLiteral("id")));
            };

            std::function<void(int, TrackedPtr)> issueThunk;
            std::function<void(int, int, bool, TrackedPtr)> issueRaw;

            // continuation shared by all tracked requests
            auto onFired = [&](TrackedPtr t, bool isError, std::function<void(TrackedPtr)> again) {
                t->fired++;
                t->error = isError;
                t->firedStep = w.stepNo;
                t->firedDuring = deliveringId;
                tr.log(QStringLiteral("app: request #%1 (%2) completed %3%4").arg(t->no).arg(t->what, isError ? QStringLiteral("with an error") : QStringLiteral("with a result"),
                                                                                  deliveringId.isEmpty() ? QString() : QStringLiteral(" during delivery of iq ") + deliveringId));
                if (t->fired > 1) {
                    w.violation(QStringLiteral("completed_twice"), QStringLiteral("C07:request_completed_more_than_once:") + (t->raw ? QStringLiteral("raw") : t->what),
                                QStringLiteral("request #%1 (%2) completed %3 times").arg(t->no).arg(t->what).arg(t->fired));
                }
                if (!deliveringId.isEmpty() && deliveringRequest && t->wireIds.contains(deliveringId)) {
                    w.violation(QStringLiteral("completed_by_wrong_sender"), QStringLiteral("C07:completed_by_a_stanza_that_is_not_a_response:") + (t->raw ? QStringLiteral("raw") : t->what),
                                QStringLiteral("request #%1 (%2) completed while an iq of type get/set that reuses its id was being delivered").arg(t->no).arg(t->what));
                }
                if (!deliveringId.isEmpty() && deliveringForged && t->wireIds.contains(deliveringId)) {
                    w.violation(QStringLiteral("completed_by_wrong_sender"), QStringLiteral("C07:completed_or_cancelled_by_reply_from_another_entity:") + (t->raw ? QStringLiteral("raw") : t->what),
                                QStringLiteral("request #%1 (%2) completed while an iq with its id from a clearly different entity was being delivered").arg(t->no).arg(t->what));
                }
                if (retry && isError && !t->retried && clientAlive && again) {
                    auto nt = std::make_shared<Tracked>();
                    nt->retried = true;
                    w.probe("retry_issued_from_continuation");
                    again(nt);
                }
            };

            auto newTracked = [&](TrackedPtr t, const QString &what, bool raw) {
                t->no = ++counter;
                t->what = what;
                t->raw = raw;
                t->issuedStep = w.stepNo;
                all.append(t);
            };

            issueRaw = [&](int toVariant, int idMode, bool sensitive, TrackedPtr t) {
                newTracked(t, sensitive ? QStringLiteral("sendSensitiveIq") : QStringLiteral("sendIq"), true);
                QXmppIq iq(QXmppIq::Get);
                switch (toVariant) {
                case 1:
                    iq.setTo(w.profile.domain);
                    break;
                case 2:
                    iq.setTo(w.ownBare());
                    break;
                case 3:
                    iq.setTo(QString::fromLatin1(kContactBare));
                    break;
                case 4:
                    iq.setTo(QString::fromLatin1(kContactFull));
                    break;
                default:
                    break;
                }
                switch (idMode) {
                case 1:
                    iq.setId(QStringLiteral("explicit-%1").arg(t->no));
                    break;
                case 2:
                    // an id that is in use by another outstanding request, if any
                    for (const auto &wr : wire) {
                        if (!wr.consumed && wr.owner->fired == 0) {
                            iq.setId(wr.id);
                            w.probe("duplicate_id_requested");
                            break;
                        }
                    }
                    break;
                case 3:
                    iq.setId(QString());
                    break;
                default:
                    break;
                }
                tr.log(QStringLiteral("app: #%1 %2 to variant %3 id mode %4").arg(t->no).arg(t->what).arg(toVariant).arg(idMode));
                issuing = t;
                auto again = [&issueRaw, toVariant, sensitive](TrackedPtr nt) { issueRaw(toVariant, 0, sensitive, nt); };
                auto task = sensitive ? w.client->sendSensitiveIq(std::move(iq)) : w.client->sendIq(std::move(iq));
                task.then(&ctx, [t, &onFired, again](QXmppClient::IqResult &&r) { onFired(t, holdsError(r), again); });
                issuing = nullptr;
            };

            issueThunk = [&](int idx, TrackedPtr t) {
                auto again = [&issueThunk, idx](TrackedPtr nt) { issueThunk(idx, nt); };
                auto track = [&, t, again]<typename T>(QXmppTask<T> task) {
                    task.then(&ctx, [t, &onFired, again](T &&r) { onFired(t, holdsError(r), again); });
                };
                const QString contact = QString::fromLatin1(kContactFull);
                const QString service = QString::fromLatin1(kService);
                const QString channel = QStringLiteral("coven@mix.example.org");
                static const char *names[kThunks] = {
                    "disco.info", "disco.items", "time", "vcard.fetch", "vcard.set", "roster.add", "roster.remove", "roster.rename",
                    "blocking.fetch", "blocking.block", "blocking.unblock", "extdisco", "pubsub.nodes", "pubsub.create", "pubsub.delete", "pubsub.itemids",
                    "pubsub.retract", "pubsub.purge", "pubsub.subscriptions", "pubsub.affiliations", "pubsub.nodeconfig", "pubsub.subscribe", "mix.create", "mix.join",
                    "mix.leave", "mix.participants", "mix.info", "mam.retrieve", "mam.retrieve_with", "tune.request", "tune.publish", "location.request",
                    "moved.verify", "upload.slot",
                    "mix.channeljids", "mix.nodes", "mix.config", "mix.updateinfo", "mix.nickname", "mix.subscriptions", "mix.invitation", "mix.allowed",
                    "mix.allow", "mix.disallow", "mix.disallowall", "mix.banned", "mix.ban", "mix.unban", "mix.unbanall", "mix.delete",
                    "pubsub.instantnode", "pubsub.nodeaffiliations", "pubsub.subscribeoptions", "pubsub.cancelconfig", "pubsub.unsubscribe", "pubsub.nodesubscriptions", "pubsub.ownpepnodes", "moved.publish",
                };
                newTracked(t, QString::fromLatin1(names[idx]), false);
                tr.log(QStringLiteral("app: #%1 %2").arg(t->no).arg(t->what));
                issuing = t;
                switch (idx) {
                case 0: track(disco->requestDiscoInfo(contact)); break;
                case 1: track(disco->requestDiscoItems(service)); break;
                case 2: track(timeM->requestEntityTime(contact)); break;
                case 3: track(vcard->fetchVCard(QString::fromLatin1(kContactBare))); break;
                case 4: {
                    QXmppVCardIq v;
                    v.setFullName(QStringLiteral("Alice"));
                    track(vcard->setVCard(v));
                    break;
                }
                case 5: track(roster->addRosterItem(QString::fromLatin1(kContactBare), QStringLiteral("Bob"))); break;
                case 6: track(roster->removeRosterItem(QString::fromLatin1(kContactBare))); break;
                case 7: track(roster->renameRosterItem(QString::fromLatin1(kContactBare), QStringLiteral("Bobby"))); break;
                case 8: track(blocking->fetchBlocklist()); break;
                case 9: track(blocking->block(QStringLiteral("spam@evil.example"))); break;
                case 10: track(blocking->unblock(QStringLiteral("spam@evil.example"))); break;
                case 11: track(extdisco->requestServices(w.profile.domain)); break;
                case 12: track(pubsub->requestNodes(service)); break;
                case 13: track(pubsub->createNode(service, QStringLiteral("node1"))); break;
                case 14: track(pubsub->deleteNode(service, QStringLiteral("node1"))); break;
                case 15: track(pubsub->requestItemIds(service, QStringLiteral("node1"))); break;
                case 16: track(pubsub->retractItem(service, QStringLiteral("node1"), QStringLiteral("item1"))); break;
                case 17: track(pubsub->purgeItems(service, QStringLiteral("node1"))); break;
                case 18: track(pubsub->requestSubscriptions(service)); break;
                case 19: track(pubsub->requestAffiliations(service)); break;
                case 20: track(pubsub->requestNodeConfiguration(service, QStringLiteral("node1"))); break;
                case 21: track(pubsub->subscribeToNode(service, QStringLiteral("node1"), w.ownBare())); break;
                case 22: track(mix->createChannel(QStringLiteral("mix.example.org"), QStringLiteral("coven"))); break;
                case 23: track(mix->joinChannel(channel, QStringLiteral("nick"))); break;
                case 24: track(mix->leaveChannel(channel)); break;
                case 25: track(mix->requestParticipants(channel)); break;
                case 26: track(mix->requestChannelInformation(channel)); break;
                case 27: track(mam->retrieveMessages()); break;
                case 28: track(mam->retrieveMessages({}, {}, QString::fromLatin1(kContactBare))); break;
                case 29: track(tune->request(QString::fromLatin1(kContactBare))); break;
                case 30: {
                    QXmppTuneItem item;
                    item.setTitle(QStringLiteral("Song"));
                    track(tune->publish(item));
                    break;
                }
                case 31: track(loc->request(QString::fromLatin1(kContactBare))); break;
                case 32: track(moved->verifyStatement(QStringLiteral("old@elsewhere.example"), w.ownBare())); break;
                case 33: track(upload->requestSlot(QStringLiteral("file.bin"), 1234, QMimeType(), QStringLiteral("upload.example.org"))); break;
                case 34: track(mix->requestChannelJids(QStringLiteral("mix.example.org"))); break;
                case 35: track(mix->requestChannelNodes(channel)); break;
                case 36: track(mix->requestChannelConfiguration(channel)); break;
                case 37: {
                    QXmppMixInfoItem info;
                    info.setName(QStringLiteral("The Coven"));
                    track(mix->updateChannelInformation(channel, info));
                    break;
                }
                case 38: track(mix->updateNickname(channel, QStringLiteral("third witch"))); break;
                case 39: track(mix->updateSubscriptions(channel)); break;
                case 40: track(mix->requestInvitation(channel, QString::fromLatin1(kContactBare))); break;
                case 41: track(mix->requestAllowedJids(channel)); break;
                case 42: track(mix->allowJid(channel, QString::fromLatin1(kContactBare))); break;
                case 43: track(mix->disallowJid(channel, QString::fromLatin1(kContactBare))); break;
                case 44: track(mix->disallowAllJids(channel)); break;
                case 45: track(mix->requestBannedJids(channel)); break;
                case 46: track(mix->banJid(channel, QStringLiteral("spam@evil.example"))); break;
                case 47: track(mix->unbanJid(channel, QStringLiteral("spam@evil.example"))); break;
                case 48: track(mix->unbanAllJids(channel)); break;
                case 49: track(mix->deleteChannel(channel)); break;
                case 50: track(pubsub->createInstantNode(service)); break;
                case 51: track(pubsub->requestNodeAffiliations(service, QStringLiteral("node1"))); break;
                case 52: track(pubsub->requestSubscribeOptions(service, QStringLiteral("node1"))); break;
                case 53: track(pubsub->cancelNodeConfiguration(service, QStringLiteral("node1"))); break;
                case 54: track(pubsub->unsubscribeFromNode(service, QStringLiteral("node1"), w.ownBare())); break;
                case 55: track(pubsub->requestSubscriptions(service, QStringLiteral("node1"))); break;
                case 56: track(pubsub->requestOwnPepNodes()); break;
                case 57: track(moved->publishStatement(QStringLiteral("new@elsewhere.example"))); break;
                }
                issuing = nullptr;
            };

            // session transitions create obligations that are checked once the step has settled
            QList<TrackedPtr> mustBeDone;
            QString mustBeDoneWhy;
            auto obligeAllOutstanding = [&](const QString &why) {
                for (const auto &t : all) {
                    if (t->fired == 0 && t->pendingJobs == 0) {
                        mustBeDone.append(t);
                    }
                }
                mustBeDoneWhy = why;
                for (auto &wr : wire) {
                    wr.consumed = true;   // nobody can answer them any more
                }
            };
            // ground truth of the world, not the library's opinion: a stream that was closed in an orderly way (the server's
            // </stream:stream> reached the client, or the application logged out) cannot be resumed (XEP-0198 section 5)
            bool orderlyEnd = false;
            QObject::connect(w.client, &QXmppClient::disconnected, &ctx, [&] {
                if (orderlyEnd) {
                    orderlyEnd = false;
                    w.probe("session_ended_by_orderly_close");
                    obligeAllOutstanding(QStringLiteral("stream_closed_in_an_orderly_way"));
                } else if (!w.client->smCanResume()) {
                    w.probe("nonresumable_session_end");
                    obligeAllOutstanding(QStringLiteral("session_ended_without_possibility_of_resumption"));
                } else {
                    w.probe("resumable_session_end");
                }
            });
            QObject::connect(w.client, &QXmppClient::connected, &ctx, [&] {
                const bool resumedTruth = w.server->current() ? w.server->current()->resumedHere : w.client->streamManagementState() == QXmppClient::ResumedStream;
                if (!resumedTruth && w.connectedSignals > 1) {
                    w.probe("nonresumed_session_opened");
                    // requests written before belong to the dead session
                    QList<TrackedPtr> before;
                    for (const auto &t : all) {
                        if (t->fired == 0 && t->pendingJobs == 0) {
                            bool onOldConn = false;
                            for (const auto &wr : wire) {
                                if (wr.owner == t && wr.conn < w.linkIndex()) {
                                    onOldConn = true;
                                }
                            }
                            if (onOldConn) {
                                before.append(t);
                            }
                        }
                    }
                    mustBeDone += before;
                    mustBeDoneWhy = QStringLiteral("new_session_opened_without_resumption");
                    for (auto &wr : wire) {
                        if (wr.conn < w.linkIndex()) {
                            wr.consumed = true;
                        }
                    }
                }
            });

            auto checkAfterStep = [&] {
                for (const auto &t : mustBeDone) {
                    if (t->fired == 0 && t->pendingJobs == 0) {
                        w.violation(QStringLiteral("left_pending"), QStringLiteral("C07:request_left_pending_after:%1:%2").arg(mustBeDoneWhy, t->raw ? QStringLiteral("raw") : QStringLiteral("manager_request")),
                                    QStringLiteral("request #%1 (%2, issued at step %3) neither completed nor failed").arg(t->no).arg(t->what).arg(t->issuedStep));
                    }
                }
                mustBeDone.clear();
                maxOutstanding = std::max(maxOutstanding, outstandingCount());
            };

            auto deliverOne = [&](int dir) {
                // wrap the delivery so that completions can be attributed to the element being delivered
                SimLink *l = w.link();
                if (!l || l->dead || !l->pending(dir)) {
                    return false;
                }
                deliveringId.clear();
                deliveringForged = false;
                deliveringRequest = false;
                deliveringOwner = nullptr;
                WireReq *answered = nullptr;
                bool legit = false;
                if (dir == 1 && !l->q[1].isEmpty() && !l->q[1].first().fin) {
                    const QByteArray &seg = l->q[1].first().data;
                    if (seg.startsWith("<iq")) {
                        QDomDocument doc;
                        QDomElement el = simxml::parse(seg, doc);
                        const QString type = el.attribute(QStringLiteral("type"));
                        if (type == QLatin1String("get") || type == QLatin1String("set")) {
                            for (const auto &wr : wire) {
                                if (wr.id == el.attribute(QStringLiteral("id")) && !wr.consumed) {
                                    deliveringId = wr.id;
                                    deliveringRequest = true;
                                }
                            }
                        }
                        if (type == QLatin1String("result") || type == QLatin1String("error")) {
                            deliveringId = el.attribute(QStringLiteral("id"));
                            const QString from = el.attribute(QStringLiteral("from"));
                            for (auto &wr : wire) {
                                if (wr.id == deliveringId && !wr.consumed) {
                                    deliveringOwner = wr.owner;
                                    const QString ownBare = w.ownBare();
                                    legit = from.isEmpty() || (!wr.to.isEmpty() && from == wr.to) || ((wr.to.isEmpty() || wr.to == ownBare) && from == ownBare);
                                    const bool clearlyDifferent = !legit && (from.startsWith(QLatin1String("mallory@")) || from.contains(QLatin1String(".evil")) || from.startsWith(QLatin1String("xbob@")) || from.startsWith(QLatin1String("xalice@")));
                                    deliveringForged = clearlyDifferent;
                                    if (legit) {
                                        answered = &wr;
                                    } else if (!clearlyDifferent) {
                                        wr.owner->indeterminate = true;
                                        w.probe("dont_care_reply_variant");
                                    }
                                    break;
                                }
                            }
                        }
                    } else if (seg.startsWith("<message") && seg.contains("urn:xmpp:mam:2")) {
                        // archive page messages belong to the query named in them
                        int i = seg.indexOf("queryid='");
                        if (i >= 0) {
                            int e = seg.indexOf('\'', i + 9);
                            deliveringOwner = ownerOfId(QString::fromUtf8(seg.mid(i + 9, e - i - 9)));
                        }
                    }
                }
                const TrackedPtr owner = deliveringOwner;
                const int firedBefore = owner ? owner->fired : 0;
                const int wireBefore = wire.size();
                const bool forged = deliveringForged;
                w.deliver(dir);
                if (owner && forged && owner->fired != firedBefore) {
                    // reported in the continuation already
                }
                if (answered && !owner->indeterminate) {
                    answered->consumed = true;
                    w.probe("legitimate_reply_delivered");
                    // liveness: the request has completed, or moved on to a follow-up request, or waits for deferred jobs
                    bool followUp = false;
                    for (int i = wireBefore; i < wire.size(); ++i) {
                        followUp = followUp || wire[i].owner == owner;
                    }
                    bool otherOpen = false;
                    for (const auto &wr : wire) {
                        otherOpen = otherOpen || (wr.owner == owner && !wr.consumed);
                    }
                    if (owner->fired == 0 && !followUp && !otherOpen && owner->pendingJobs == 0) {
                        w.violation(QStringLiteral("legit_reply_did_not_complete"), QStringLiteral("C07:legitimate_reply_left_request_pending:") + (owner->raw ? QStringLiteral("raw") : owner->what),
                                    QStringLiteral("request #%1 (%2): the reply with its id from the entity asked was delivered, nothing else is outstanding, but the task did not complete").arg(owner->no).arg(owner->what));
                    }
                }
                deliveringId.clear();
                deliveringForged = false;
                deliveringRequest = false;
                deliveringOwner = nullptr;
                return true;
            };
            auto pumpAll = [&] {
                int guard = 0;
                while (guard++ < 3000) {
                    if (w.connectPending) {
                        w.resolveConnect(true);
                        continue;
                    }
                    if (w.tlsPending) {
                        w.resolveTls(true);
                        continue;
                    }
                    if (!(deliverOne(0) || deliverOne(1))) {
                        break;
                    }
                }
            };

            for (const auto &op : plan.ops) {
                Prng r(mix64(plan.seed, op.salt));
                const QString &k = op.kind;
                ServerConn *conn = w.server->current();
                const bool up = clientAlive && w.client->isConnected();
                if (k == QLatin1String("raw") || k == QLatin1String("sens")) {
                    if (clientAlive && (up || w.client->state() == QXmppClient::DisconnectedState)) {
                        issueRaw((int)op.arg(0), k == QLatin1String("raw") ? (int)op.arg(1) : 0, k == QLatin1String("sens"), std::make_shared<Tracked>());
                        settle();
                    }
                } else if (k == QLatin1String("mgr")) {
                    if (clientAlive && ext && (up || w.client->state() == QXmppClient::DisconnectedState)) {
                        issueThunk((int)op.arg(0) % kThunks, std::make_shared<Tracked>());
                        settle();
                    }
                } else if (k == QLatin1String("reply")) {
                    // answer the k-th open request (mod the number open)
                    QList<int> open;
                    for (int i = 0; i < wire.size(); ++i) {
                        if (!wire[i].consumed) {
                            open.append(i);
                        }
                    }
                    if (conn && conn->sessionReady && !open.isEmpty()) {
                        const WireReq wr = wire[open[(int)op.arg(0) % open.size()]];
                        const QString ownBare = w.ownBare();
                        QString from;
                        switch (op.arg(2)) {
                        case 0:
                            from = wr.to;
                            break;
                        case 1:
                            break;
                        case 2:
                            from = ownBare;
                            break;
                        case 3:
                            from = QStringLiteral("mallory@stranger.example/x");
                            break;
                        case 4:
                            // look-alike of the addressee (or of the own account)
                            from = wr.to.isEmpty() ? QStringLiteral("xalice@example.org") : (wr.to.contains(QLatin1Char('@')) ? QStringLiteral("x") + wr.to : wr.to + QStringLiteral(".evil"));
                            break;
                        default:
                            // bare/full variant of the addressee: neither required nor forbidden to match
                            from = wr.to.contains(QLatin1Char('/')) ? wr.to.section(QLatin1Char('/'), 0, 0) : (wr.to.isEmpty() ? w.profile.domain : wr.to + QStringLiteral("/other"));
                        }
                        const bool legit = from.isEmpty() || (!wr.to.isEmpty() && from == wr.to) || ((wr.to.isEmpty() || wr.to == ownBare) && from == ownBare);
                        if (!legit) {
                            adversarialBetween = true;
                            w.fault(op.arg(2) == 5 ? "reply_from_variant_of_addressee" : "reply_right_id_wrong_sender");
                        }
                        const QByteArray fromAttr = from.isEmpty() ? QByteArray() : " from='" + simxml::esc(from).toUtf8() + "'";
                        const QByteArray head = "<iq id='" + simxml::esc(wr.id).toUtf8() + "'" + fromAttr + " to='" + conn->fullJid.toUtf8() + "'";
                        QByteArray xml;
                        int kind = (int)op.arg(1);
                        if (kind == 3 && wr.ns != QLatin1String("urn:xmpp:mam:2")) {
                            kind = 0;
                        }
                        switch (kind) {
                        case 0:
                            xml = head + " type='result'/>";
                            w.fault("reply_empty_result");
                            break;
                        case 1:
                            xml = head + " type='error'><error type='cancel'><item-not-found xmlns='urn:ietf:params:xml:ns:xmpp-stanzas'/></error></iq>";
                            w.fault("reply_error");
                            break;
                        case 2:
                            xml = head + " type='result'><unexpected xmlns='urn:example:unexpected'><child/></unexpected></iq>";
                            w.fault("reply_unexpected_payload");
                            break;
                        case 4:
                            // not a reply at all: the entity's own request, which happens to use the same id (ids are unique per sender only)
                            xml = head + " type='get'><query xmlns='jabber:iq:version'/></iq>";
                            w.fault("request_of_the_addressee_reusing_the_id");
                            break;
                        case 5:
                            xml = head + " type='set'><query xmlns='jabber:iq:roster'><item jid='carol@contacts.example' subscription='both'/></query></iq>";
                            w.fault("request_of_the_addressee_reusing_the_id");
                            break;
                        case 3: {
                            int n = (int)r.uniform(4);
                            for (int i = 0; i < n; ++i) {
                                conn->sendStanza("<message" + fromAttr + " to='" + conn->fullJid.toUtf8() + "'><result xmlns='urn:xmpp:mam:2' queryid='" + wr.id.toUtf8() + "' id='a" + QByteArray::number(i) +
                                                 "'><forwarded xmlns='urn:xmpp:forward:0'><delay xmlns='urn:xmpp:delay' stamp='2020-01-01T00:00:00Z'/><message xmlns='jabber:client' from='bob@contacts.example/phone' to='alice@example.org' type='chat'><body>archived " +
                                                 QByteArray::number(i) + "</body>" + (r.chance(0.6) ? "<encrypted xmlns='urn:example:e2ee'/>" : "") + "</message></forwarded></result></message>");
                            }
                            xml = head + " type='result'><fin xmlns='urn:xmpp:mam:2' complete='true'><set xmlns='http://jabber.org/protocol/rsm'><count>" + QByteArray::number(n) + "</count></set></fin></iq>";
                            w.fault(n == 0 ? "reply_mam_empty_page" : "reply_mam_page");
                            break;
                        }
                        }
                        conn->sendStanza(xml);
                        if (op.arg(3)) {
                            conn->sendStanza(xml);
                            w.fault("reply_duplicated");
                        }
                    }
                } else if (k == QLatin1String("dec")) {
                    if (!jobs.isEmpty()) {
                        Job j = jobs.takeAt((int)op.arg(0) % jobs.size());
                        w.fault(op.arg(1) ? "e2ee_job_completed_late" : "e2ee_job_failed_late");
                        deliveringOwner = j.owner;   // follow-up requests issued from the completion belong to the same request
                        j.complete(op.arg(1));
                        deliveringOwner = nullptr;
                        settle();
                    }
                } else if (k == QLatin1String("dl")) {
                    deliverOne((int)op.arg(0));
                } else if (k == QLatin1String("pump")) {
                    pumpAll();
                } else if (k == QLatin1String("lose")) {
                    if (!up && op.arg(0) == 3 && clientAlive && w.client->state() == QXmppClient::DisconnectedState && !w.connectPending) {
                        // the application logs out while the client is disconnected (after a loss that left the session
                        // resumable): it gives the session up, nothing can be resumed any more
                        w.fault("application_logs_out_while_disconnected");
                        w.client->disconnectFromServer();
                        pumpAll();
                        settle();
                        obligeAllOutstanding(QStringLiteral("application_logged_out_while_disconnected"));
                    }
                    if (up) {
                        if (outstandingCount() > 0) {
                            adversarialBetween = true;
                            w.probe("loss_with_requests_outstanding");
                        }
                        switch (op.arg(0)) {
                        case 0:
                            orderlyEnd = w.client->isConnected();
                            w.serverClose();
                            pumpAll();
                            break;
                        case 1:
                            w.cutLink();
                            break;
                        case 3:
                            if (w.client->isConnected()) {
                                w.fault("application_logs_out");
                                orderlyEnd = true;
                                w.client->disconnectFromServer();
                                pumpAll();
                            }
                            break;
                        default:
                            if (conn) {
                                w.fault("peer_fin_without_stream_end");
                                conn->closeStream(false);
                                pumpAll();
                            }
                        }
                    }
                } else if (k == QLatin1String("reconn")) {
                    orderlyEnd = false;
                    if (clientAlive && w.client->state() == QXmppClient::DisconnectedState && !w.connectPending) {
                        auto &sp = w.server->profile;
                        sp.quirks.remove(QStringLiteral("resume"));
                        switch (op.arg(0)) {
                        case 1:
                            sp.quirks[QStringLiteral("resume")] = QStringLiteral("refuse");
                            w.fault("resume_refused");
                            break;
                        case 2:
                            w.fault("server_restart");
                            w.server->forgetSmSessions();
                            break;
                        default:
                            break;
                        }
                        w.connectClient();
                        w.resolveConnect(true);
                    }
                } else if (k == QLatin1String("connect") || k == QLatin1String("advance") || k == QLatin1String("timer")) {
                    w.applyCommon(op);
                }
                settle();
                checkAfterStep();
                w.afterStep();
            }
            // quiesce: deliver everything, complete every deferred job, then log out and destroy the client
            pumpAll();
            while (!jobs.isEmpty()) {
                Job j = jobs.takeFirst();
                deliveringOwner = j.owner;
                j.complete(true);
                deliveringOwner = nullptr;
                settle();
            }
            pumpAll();
            checkAfterStep();
            w.client->disconnectFromServer();
            pumpAll();
            // jobs created meanwhile (e.g. by a retry issued from a continuation during logout) are completed as well
            for (int guard = 0; !jobs.isEmpty() && guard < 200; ++guard) {
                Job j = jobs.takeFirst();
                deliveringOwner = j.owner;
                j.complete(true);
                deliveringOwner = nullptr;
                settle();
            }
            checkAfterStep();
            clientAlive = false;
            delete w.client;
            w.client = nullptr;
            settle();
            delete e2ee;
            // Completion is owed when a session ends without the possibility of resumption or a non-resumed session opens
            // (checked above, at those moments). A request that is still retained for a resumable session when the
            // application destroys the client is not owed a completion by the statement (conversions whose context is the
            // dying client are dropped by design of the task primitive, C13); it must only never have completed twice.
            for (const auto &t : all) {
                if (t->fired > 1) {
                    w.violation(QStringLiteral("not_exactly_once"), QStringLiteral("C07:request_completed_%1_times_by_end:%2").arg(t->fired).arg(t->raw ? QStringLiteral("raw") : t->what),
                                QStringLiteral("request #%1 (%2) had completed %3 times after logout and destruction of the client").arg(t->no).arg(t->what).arg(t->fired));
                }
                if (t->fired == 0) {
                    w.probe("retained_request_dropped_at_client_destruction");
                }
            }
            res.nontrivial = maxOutstanding >= 2 && adversarialBetween;
        }
        res.traceHash = tr.hash.value();
        res.trace = tr.lines;
        return res;
    }

    bool removable(const Plan &plan, int i) override { return plan.ops[i].kind != QLatin1String("connect"); }
    QVector<Plan> simplerKnobs(const Plan &p) override
    {
        QVector<Plan> out;
        for (const char *k : { "retry", "e2ee", "ext", "sm" }) {
            if (p.knob(QString::fromLatin1(k))) {
                Plan q = p;
                q.knobs[QString::fromLatin1(k)] = 0;
                out << q;
            }
        }
        return out;
    }
    QVector<Op> simplerOps(const Op &op) override
    {
        QVector<Op> out;
        if (op.kind == QLatin1String("reply")) {
            if (op.arg(3)) {
                Op o = op;
                o.a[3] = 0;
                out << o;
            }
            if (op.arg(1) != 0) {
                Op o = op;
                o.a[1] = 0;
                out << o;
            }
            if (op.arg(0) != 0) {
                Op o = op;
                o.a[0] = 0;
                out << o;
            }
        }
        if (op.kind == QLatin1String("raw") && op.arg(1) != 0) {
            Op o = op;
            o.a[1] = 0;
            out << o;
        }
        return out;
    }
};

static EngineRegistrar reg(new C07Engine);

}  // namespace
