// C08 — every incoming IQ request is answered exactly once; responses are never answered.
#include "session_world.h"

#include "QXmppArchiveManager.h"
#include "QXmppAttentionManager.h"
#include "QXmppBlockingManager.h"
#include "QXmppBookmarkManager.h"
#include "QXmppCallInviteManager.h"
#include "QXmppCarbonManager.h"
#include "QXmppCarbonManagerV2.h"
#include "QXmppDiscoveryManager.h"
#include "QXmppE2eeExtension.h"
#include "QXmppE2eeMetadata.h"
#include "QXmppFutureUtils_p.h"
#include "QXmppMessage.h"
#include "QXmppEntityTimeManager.h"
#include "QXmppExternalServiceDiscoveryManager.h"
#include "QXmppIq.h"
#include "QXmppJingleMessageInitiationManager.h"
#include "QXmppMamManager.h"
#include "QXmppMessageReceiptManager.h"
#include "QXmppMixManager.h"
#include "QXmppMovedManager.h"
#include "QXmppMucManager.h"
#include "QXmppPubSubManager.h"
#include "QXmppRegistrationManager.h"
#include "QXmppRosterManager.h"
#include "QXmppRpcManager.h"
#include "QXmppTask.h"
#include "QXmppTransferManager.h"
#include "QXmppUploadRequestManager.h"
#include "QXmppUserLocationManager.h"
#include "QXmppUserTuneManager.h"
#include "QXmppVCardManager.h"
#include "QXmppVersionManager.h"

using namespace sim;

namespace {

// A minimal end-to-end encryption extension built on the library's public hooks, shaped like the OMEMO manager (which is not
// built in this sandbox): an IQ whose payload is <enc xmlns='urn:sim:e2ee'>BASE64(inner iq)</enc> is "decrypted" and handed
// back to the client through QXmppClientExtension::injectIq() together with e2ee metadata, so it travels the client's
// second IQ entry point (fallback error reply included); replies to such IQs go through encryptIq().
class SimE2ee : public QXmppClientExtension, public QXmppE2eeExtension
{
public:
    int injectedCount = 0;
    bool handleStanza(const QDomElement &el, const std::optional<QXmppE2eeMetadata> &md) override
    {
        if (md || el.tagName() != QLatin1String("iq")) {
            return false;
        }
        const QDomElement enc = el.firstChildElement(QStringLiteral("enc"));
        if (enc.isNull() || enc.namespaceURI() != QLatin1String("urn:sim:e2ee")) {
            return false;
        }
        QDomDocument doc;
        if (!doc.setContent(QByteArray::fromBase64(enc.text().toLatin1()), true)) {
            return false;
        }
        QXmppE2eeMetadata m;
        m.setEncryption(QXmpp::Omemo2);
        m.setSenderKey(QByteArray("simkey"));
        ++injectedCount;
        injectIq(doc.documentElement(), m);
        return true;
    }
    QXmppTask<MessageEncryptResult> encryptMessage(QXmppMessage &&m, const std::optional<QXmppSendStanzaParams> &) override
    {
        return QXmpp::Private::makeReadyTask<MessageEncryptResult>(std::make_unique<QXmppMessage>(std::move(m)));
    }
    QXmppTask<MessageDecryptResult> decryptMessage(QXmppMessage &&) override
    {
        return QXmpp::Private::makeReadyTask<MessageDecryptResult>(NotEncrypted {});
    }
    QXmppTask<IqEncryptResult> encryptIq(QXmppIq &&iq, const std::optional<QXmppSendStanzaParams> &) override
    {
        // the "ciphertext" keeps id, type and addressee readable, which is all the far end's count needs
        return QXmpp::Private::makeReadyTask<IqEncryptResult>(std::make_unique<QXmppIq>(iq));
    }
    QXmppTask<IqDecryptResult> decryptIq(const QDomElement &) override
    {
        return QXmpp::Private::makeReadyTask<IqDecryptResult>(NotEncrypted {});
    }
    bool isEncrypted(const QDomElement &) override { return false; }
    bool isEncrypted(const QXmppMessage &) override { return false; }
};

struct Payload {
    const char *name;
    const char *xml;   // child element(s); "" = no child
};

static const Payload kPayloads[] = {
    { "ping", "<ping xmlns='urn:xmpp:ping'/>" },
    { "version", "<query xmlns='jabber:iq:version'/>" },
    { "time", "<time xmlns='urn:xmpp:time'/>" },
    { "disco_info", "<query xmlns='http://jabber.org/protocol/disco#info'/>" },
    { "disco_info_node", "<query xmlns='http://jabber.org/protocol/disco#info' node='http://example.org/unknown#node'/>" },
    { "disco_items", "<query xmlns='http://jabber.org/protocol/disco#items'/>" },
    { "vcard", "<vCard xmlns='vcard-temp'><FN>Mallory</FN></vCard>" },
    { "vcard_empty", "<vCard xmlns='vcard-temp'/>" },
    { "roster", "<query xmlns='jabber:iq:roster'/>" },
    { "roster_item", "<query xmlns='jabber:iq:roster'><item jid='eve@evil.example' subscription='both'/></query>" },
    { "bob", "<data xmlns='urn:xmpp:bob' cid='sha1+8f35fef110ffc5df08d579a50083ff9308fb6242@bob.xmpp.org'/>" },
    { "ibb_open", "<open xmlns='http://jabber.org/protocol/ibb' block-size='4096' sid='nosuchsid' stanza='iq'/>" },
    { "ibb_data", "<data xmlns='http://jabber.org/protocol/ibb' seq='0' sid='nosuchsid'>aGVsbG8=</data>" },
    { "ibb_close", "<close xmlns='http://jabber.org/protocol/ibb' sid='nosuchsid'/>" },
    { "si", "<si xmlns='http://jabber.org/protocol/si' id='a0' profile='http://jabber.org/protocol/si/profile/file-transfer'><file xmlns='http://jabber.org/protocol/si/profile/file-transfer' name='x' size='1'/><feature xmlns='http://jabber.org/protocol/feature-neg'><x xmlns='jabber:x:data' type='form'><field var='stream-method' type='list-single'><option><value>http://jabber.org/protocol/ibb</value></option></field></x></feature></si>" },
    { "si_bare", "<si xmlns='http://jabber.org/protocol/si'/>" },
    { "bytestreams", "<query xmlns='http://jabber.org/protocol/bytestreams' sid='nosuchsid'><streamhost jid='proxy.example' host='10.0.0.9' port='7777'/></query>" },
    { "jingle", "<jingle xmlns='urn:xmpp:jingle:1' action='session-initiate' sid='a73sjjvkla37jfea'/>" },
    { "rpc", "<query xmlns='jabber:iq:rpc'><methodCall><methodName>x.y</methodName></methodCall></query>" },
    { "register", "<query xmlns='jabber:iq:register'/>" },
    { "blocking", "<block xmlns='urn:xmpp:blocking'><item jid='romeo@montague.example'/></block>" },
    { "unblock", "<unblock xmlns='urn:xmpp:blocking'/>" },
    { "blocklist", "<blocklist xmlns='urn:xmpp:blocking'/>" },
    { "carbons_enable", "<enable xmlns='urn:xmpp:carbons:2'/>" },
    { "pubsub", "<pubsub xmlns='http://jabber.org/protocol/pubsub'><items node='n'/></pubsub>" },
    { "pubsub_owner", "<pubsub xmlns='http://jabber.org/protocol/pubsub#owner'><delete node='n'/></pubsub>" },
    { "mam_query", "<query xmlns='urn:xmpp:mam:2' queryid='q1'/>" },
    { "mam_fin", "<fin xmlns='urn:xmpp:mam:2' complete='true'/>" },
    { "mix_join", "<join xmlns='urn:xmpp:mix:core:1'/>" },
    { "mix_pam", "<client-join xmlns='urn:xmpp:mix:pam:2' channel='c@mix.example'/>" },
    { "http_upload", "<request xmlns='urn:xmpp:http:upload:0' filename='a' size='1'/>" },
    { "http_slot", "<slot xmlns='urn:xmpp:http:upload:0'><put url='https://x/'/><get url='https://x/'/></slot>" },
    { "extdisco", "<services xmlns='urn:xmpp:extdisco:2'/>" },
    { "last", "<query xmlns='jabber:iq:last'/>" },
    { "private", "<query xmlns='jabber:iq:private'><storage xmlns='storage:bookmarks'/></query>" },
    { "muc_admin", "<query xmlns='http://jabber.org/protocol/muc#admin'/>" },
    { "muc_owner", "<query xmlns='http://jabber.org/protocol/muc#owner'/>" },
    { "archive_list", "<list xmlns='urn:xmpp:archive'/>" },
    { "archive_chat", "<chat xmlns='urn:xmpp:archive' with='a@b'/>" },
    { "bind", "<bind xmlns='urn:ietf:params:xml:ns:xmpp-bind'><resource>x</resource></bind>" },
    { "session", "<session xmlns='urn:ietf:params:xml:ns:xmpp-session'/>" },
    { "iq_auth", "<query xmlns='jabber:iq:auth'/>" },
    { "push_enable", "<enable xmlns='urn:xmpp:push:0' jid='p@x' node='n'/>" },
    { "entity_caps_unknown", "<query xmlns='urn:example:unknown'/>" },
    { "unknown_nested", "<a xmlns='urn:example:a'><b><c/></b></a>" },
    { "no_child", "" },
    { "two_children", "<ping xmlns='urn:xmpp:ping'/><query xmlns='jabber:iq:version'/>" },
    { "error_child_only", "<error type='cancel'><item-not-found xmlns='urn:ietf:params:xml:ns:xmpp-stanzas'/></error>" },
    { "stanza_error_plus_payload", "<query xmlns='jabber:iq:version'/><error type='cancel'><service-unavailable xmlns='urn:ietf:params:xml:ns:xmpp-stanzas'/></error>" },
};
constexpr int kPayloadCount = sizeof(kPayloads) / sizeof(*kPayloads);

struct Injected {
    int no;
    QString id, from, type, payload;
    bool fromAbsent;
    bool delivered = false;
    int deliveredStep = -1;
    bool linkUpAfter = false;
    QString smIdAtDelivery;   // stream-management session on which it was delivered (SM runs)
    QMap<QString, int> perSession;
    int replies = 0;
    int step;
    QString senderClass;
    QStringList replyTypes;
    bool sameIdAsPending = false;
};

class C08Engine : public Engine
{
public:
    QString property() const override { return QStringLiteral("C08"); }
    QString describe() const override
    {
        return QStringLiteral("real: QXmppClient extension chain and fallback reply, QXmppIqHandling, every bundled manager that builds without GStreamer/QCA/OMEMO ; "
                              "stub: transport, ScriptedServer injecting IQs from the server, own other resource, contacts and strangers ; oracle: reply counter per (sender, id)");
    }

    Plan generate(quint64 seed, const QString &tier) override
    {
        Plan p;
        Prng r(derive(seed, "c08"));
        auto &k = p.knobs;
        k[QStringLiteral("scramIter")] = 1;
        p.sknobs[QStringLiteral("sasl1")] = QStringLiteral("SCRAM-SHA-1");
        // Without stream management (75 %) a reply is judged where the client writes it. With resumable stream management
        // (25 %) what counts is what the sender gets: replies are counted where the server receives them, over the whole
        // chain of resumed connections (a retransmission that replaces a lost copy is not a second reply; a copy of an
        // already received reply is)
        k[QStringLiteral("sm")] = (qint64)(mix64(seed, 0x5e08) % 100 < 25 ? 2 : 0);
        k[QStringLiteral("ext")] = r.weighted({ 15, 35, 50 });   // 0 none, 1 defaults, 2 every bundled manager
        k[QStringLiteral("autoReconnect")] = 0;
        // an end-to-end encryption extension (own stream: the other draws of a seed stay what they were); with it 15 % of
        // the incoming IQs arrive wrapped and reach the client through injectIq()
        Prng re(derive(seed, "c08e2ee"));
        const bool e2ee = re.chance(0.4);
        k[QStringLiteral("e2ee")] = e2ee;
        p.ops.append(mkop(QStringLiteral("connect")));
        p.ops.append(mkop(QStringLiteral("pump")));
        const int n = (int)r.range(4, tier == QLatin1String("thorough") ? 40 : 24);
        for (int i = 0; i < n; ++i) {
            quint32 salt = (quint32)r.next();
            switch (r.weighted({ 70, 6, 12, 8, 4 })) {
            case 0:
                // sender class, type, payload, id mode
                p.ops.append(mkop(QStringLiteral("iq"), { (qint64)r.uniform(6), r.weighted({ 38, 38, 11, 11, 1, 1 }), (qint64)r.uniform(kPayloadCount), r.weighted({ 85, 15 }), (qint64)(e2ee && re.chance(0.15)), (qint64)re.chance(0.08) }, {}, salt));
                break;
            case 1:
                p.ops.append(mkop(QStringLiteral("req"), { (qint64)r.uniform(3) }, {}, salt));   // the client's own request stays in flight
                break;
            case 2:
                p.ops.append(mkop(QStringLiteral("dl"), { (qint64)r.uniform(2) }, {}, salt));
                break;
            case 3:
                p.ops.append(mkop(QStringLiteral("pump"), {}, {}, salt));
                break;
            case 4:
                p.ops.append(mkop(QStringLiteral("cut"), {}, {}, salt));
                p.ops.append(mkop(QStringLiteral("connect"), {}, {}, (quint32)r.next()));
                p.ops.append(mkop(QStringLiteral("pump"), {}, {}, (quint32)r.next()));
                break;
            }
        }
        p.ops.append(mkop(QStringLiteral("pump")));
        return p;
    }

    RunResult execute(const Plan &plan, bool verbose) override
    {
        RunResult res;
        Trace tr(verbose);
        {
            SessionWorld w(plan, tr, res);
            QObject ctx;
            QList<Injected> injected;
            QStringList pendingOwn;      // ids of the client's own requests in flight, with their addressee
            QMap<QString, QString> pendingOwnTo;
            int counter = 0;
            QString ownBareNow;
            QSet<QString> handlersHit, typesHit;

            const bool smRun = plan.knob(QStringLiteral("sm")) > 0;
            w.onNewLink = [&](SimLink *l) {
                l->onWrite = [&](int from, const QByteArray &d) {
                    if (from != 0 || !d.startsWith("<iq")) {
                        return;
                    }
                    QDomDocument doc;
                    QDomElement el = simxml::parse(d, doc);
                    const QString type = el.attribute(QStringLiteral("type"));
                    const QString id = el.attribute(QStringLiteral("id"));
                    const QString to = el.attribute(QStringLiteral("to"));
                    if (type == QLatin1String("get") || type == QLatin1String("set")) {
                        if (id.startsWith(QLatin1String("own-")) && !pendingOwnTo.contains(id)) {   // requests the server holds: they really are in flight
                            // (a retransmission of the same request after a resumption is not a new one)
                            pendingOwn.append(id);
                            pendingOwnTo[id] = to;
                        }
                        return;
                    }
                    if (smRun) {
                        return;   // counted at the receiving end (below)
                    }
                    // a reply: attribute it to the injected IQ it answers
                    for (auto &in : injected) {
                        // a reply without 'to' goes to the own server/account: it reaches the sender if the sender is the account itself
                        const bool toAccount = to.isEmpty() && !in.fromAbsent && in.from.section(QLatin1Char('/'), 0, 0) == ownBareNow;
                        if (in.id == id && ((in.fromAbsent ? to.isEmpty() : to == in.from) || toAccount) && in.delivered) {
                            in.replies++;
                            in.replyTypes << type;
                            return;
                        }
                    }
                };
                l->onDeliver = [&](int dir, const QByteArray &bytes) {
                    if (dir != 1) {
                        return;
                    }
                    for (auto &in : injected) {
                        if (!in.delivered && bytes.contains(("id='" + in.id + "'").toUtf8())) {
                            in.delivered = true;
                            in.deliveredStep = w.stepNo;
                            if (auto *c = w.server->current()) {
                                in.smIdAtDelivery = c->sm ? c->sm->id : QString();
                            }
                        }
                    }
                };
            };
            const int ext = (int)plan.knob(QStringLiteral("ext"));
            w.createClient(ext == 0 ? QXmppClient::NoExtensions : QXmppClient::BasicExtensions);
            if (plan.knob(QStringLiteral("e2ee")) == 1) {
                auto *e = new SimE2ee;
                w.client->addExtension(e);
                w.client->setEncryptionExtension(e);
            }
            if (ext == 2) {
                auto *c = w.client;
                c->addNewExtension<QXmppArchiveManager>();
                c->addNewExtension<QXmppAttentionManager>();
                c->addNewExtension<QXmppBlockingManager>();
                c->addNewExtension<QXmppBookmarkManager>();
                c->addNewExtension<QXmppCallInviteManager>();
                c->addNewExtension<QXmppCarbonManager>();
                c->addNewExtension<QXmppCarbonManagerV2>();
                c->addNewExtension<QXmppExternalServiceDiscoveryManager>();
                c->addNewExtension<QXmppJingleMessageInitiationManager>();
                c->addNewExtension<QXmppMamManager>();
                c->addNewExtension<QXmppMessageReceiptManager>();
                c->addNewExtension<QXmppPubSubManager>();
                c->addNewExtension<QXmppMixManager>();
                c->addNewExtension<QXmppMovedManager>();
                c->addNewExtension<QXmppMucManager>();
                c->addNewExtension<QXmppRegistrationManager>();
                c->addNewExtension<QXmppRpcManager>();
                c->addNewExtension<QXmppTransferManager>();
                c->addNewExtension<QXmppUploadRequestManager>();
                c->addNewExtension<QXmppUserLocationManager>();
                c->addNewExtension<QXmppUserTuneManager>();
            }
            // the server holds the client's own requests (they stay in flight)
            w.server->onSessionStanza = [&](ServerConn &, const QDomElement &el, const QByteArray &) {
                const QString type = el.attribute(QStringLiteral("type"));
                return el.tagName() == QLatin1String("iq") && (type == QLatin1String("get") || type == QLatin1String("set")) && el.attribute(QStringLiteral("id")).startsWith(QLatin1String("own-"));
            };

            for (const auto &op : plan.ops) {
                Prng r(mix64(plan.seed, op.salt));
                const QString &k = op.kind;
                ServerConn *conn = w.server->current();
                if (k == QLatin1String("iq")) {
                    if (conn && conn->sessionReady && w.client->isConnected()) {
                        const QString full = conn->fullJid;
                        const QString bare = full.section(QLatin1Char('/'), 0, 0);
                        ownBareNow = bare;
                        Injected in;
                        in.no = ++counter;
                        in.fromAbsent = false;
                        switch (op.arg(0)) {
                        case 0:
                            in.fromAbsent = true;
                            in.senderClass = QStringLiteral("server_no_from");
                            break;
                        case 1:
                            in.from = w.profile.domain;
                            in.senderClass = QStringLiteral("server_domain");
                            break;
                        case 2:
                            in.from = bare + QStringLiteral("/other-device");
                            in.senderClass = QStringLiteral("own_other_resource");
                            break;
                        case 3:
                            in.from = bare;
                            in.senderClass = QStringLiteral("own_bare");
                            break;
                        case 4:
                            in.from = QStringLiteral("bob@contacts.example/phone");
                            in.senderClass = QStringLiteral("contact");
                            break;
                        default:
                            in.from = QStringLiteral("mallory@stranger.example/x");
                            in.senderClass = QStringLiteral("stranger");
                        }
                        static const char *types[] = { "get", "set", "result", "error", "", "bogus" };
                        in.type = QString::fromLatin1(types[op.arg(1) % 6]);
                        const Payload &pl = kPayloads[op.arg(2) % kPayloadCount];
                        in.payload = QString::fromLatin1(pl.name);
                        in.id = QStringLiteral("in%1-%2").arg(in.no).arg(r.uniform(100000));
                        if (op.arg(3) == 1) {
                            // an id that one of the client's own pending requests to this very entity uses
                            for (const auto &oid : std::as_const(pendingOwn)) {
                                const QString to = pendingOwnTo.value(oid);
                                if ((to == in.from) || (to.isEmpty() && in.fromAbsent)) {
                                    in.id = oid;
                                    pendingOwn.removeAll(oid);   // one incoming request per pending id, so replies stay attributable
                                    in.sameIdAsPending = true;
                                    w.fault("request_with_id_of_pending_own_request");
                                    break;
                                }
                            }
                        }
                        in.step = w.stepNo;
                        QByteArray x = "<iq id='" + in.id.toUtf8() + "'";
                        if (!in.fromAbsent) {
                            x += " from='" + in.from.toUtf8() + "'";
                        }
                        x += " to='" + full.toUtf8() + "'";
                        if (!in.type.isEmpty()) {
                            x += " type='" + in.type.toUtf8() + "'";
                        }
                        // an IQ should have one child; a peer may send several, and the one a manager knows need not come first
                        QByteArray payloadXml = pl.xml;
                        if (op.arg(5) == 1) {
                            payloadXml = "<query xmlns='urn:example:unknown-first-child'/>" + payloadXml;
                            in.payload += QStringLiteral("+after_unknown_sibling");
                            w.fault("iq_with_an_unknown_first_child_before_the_payload");
                        }
                        if (op.arg(4) == 1) {
                            // end-to-end encrypted: the payload is the whole inner IQ
                            const QByteArray inner = x + " xmlns='jabber:client'>" + payloadXml + "</iq>";
                            x += "><enc xmlns='urn:sim:e2ee'>" + inner.toBase64() + "</enc></iq>";
                            in.payload += QStringLiteral("+e2ee");
                            w.fault("iq_end_to_end_encrypted_injected_by_extension");
                        } else {
                            x += ">" + payloadXml + "</iq>";
                        }
                        injected.append(in);
                        typesHit.insert(in.type);
                        handlersHit.insert(in.payload);
                        tr.log(QStringLiteral("srv: iq #%1 type='%2' payload=%3 from %4").arg(in.no).arg(in.type, in.payload, in.senderClass));
                        conn->sendStanza(x);
                    }
                } else if (k == QLatin1String("req")) {
                    if (w.client->isConnected()) {
                        QXmppIq iq(QXmppIq::Get);
                        iq.setId(QStringLiteral("own-%1").arg(++counter));
                        switch (op.arg(0)) {
                        case 0:
                            break;
                        case 1:
                            iq.setTo(w.profile.domain);
                            break;
                        default:
                            iq.setTo(QStringLiteral("bob@contacts.example/phone"));
                        }
                        w.client->sendIq(std::move(iq)).then(&ctx, [](QXmppClient::IqResult &&) {});
                        settle();
                    }
                } else if (k == QLatin1String("dl")) {
                    w.deliver((int)op.arg(0));
                } else if (k == QLatin1String("connect")) {
                    if (w.client->state() == QXmppClient::DisconnectedState && !w.connectPending) {
                        w.connectClient();
                    }
                } else {
                    w.applyCommon(op);
                }
                settle();
                // an IQ whose link died before/while it was handled carries no obligation
                for (auto &in : injected) {
                    if (in.delivered && in.deliveredStep == w.stepNo) {
                        in.linkUpAfter = w.client->isConnected();
                    }
                }
                w.afterStep();
            }
            w.pump(nullptr);
            settle();
            for (auto &in : injected) {
                if (in.delivered && in.deliveredStep == w.stepNo) {
                    in.linkUpAfter = w.client->isConnected();
                }
            }
            QString finalSmId;
            if (auto *c = w.server->current()) {
                finalSmId = c->sm ? c->sm->id : QString();
            }
            if (smRun) {
                // count the replies where the server received them (all connections of the run)
                for (const auto &ri : std::as_const(w.server->received)) {
                    if (ri.tag != QLatin1String("iq") || (ri.type != QLatin1String("result") && ri.type != QLatin1String("error"))) {
                        continue;
                    }
                    for (auto &in : injected) {
                        const bool toAccount = ri.to.isEmpty() && !in.fromAbsent && in.from.section(QLatin1Char('/'), 0, 0) == ownBareNow;
                        if (in.delivered && in.id == ri.id && ((in.fromAbsent ? ri.to.isEmpty() : ri.to == in.from) || toAccount)) {
                            // a copy on ANOTHER stream-management session is what XEP-0198 prescribes when a session could not be
                            // resumed (delivery unknown, stanza transmitted again): only copies within one session count as extra
                            const int n = ++in.perSession[ri.smId];
                            in.replies = std::max(in.replies, n);
                            in.replyTypes << ri.type;
                            break;
                        }
                    }
                }
            }
            int judged = 0;
            for (auto &in : injected) {
                if (!in.delivered) {
                    continue;
                }
                if (smRun && in.replies <= 1) {
                    // the reply is owed only if the stream-management session it was received on is still the current one
                    // and the client is connected: then everything unacknowledged has been transmitted (again) and pumped
                    const bool chainIntact = w.client->isConnected() && !in.smIdAtDelivery.isEmpty() && in.smIdAtDelivery == finalSmId;
                    if (!chainIntact && in.replies == 0) {
                        w.probe("obligation_lapsed_session_chain_broken");
                        continue;
                    }
                    in.linkUpAfter = true;
                }
                const bool request = in.type == QLatin1String("get") || in.type == QLatin1String("set");
                const bool response = in.type == QLatin1String("result") || in.type == QLatin1String("error");
                if (!request && !response) {
                    w.probe("iq_with_absent_or_unknown_type");   // the statement puts no obligation on them
                    continue;
                }
                if (response) {
                    ++judged;
                    if (in.replies > 0) {
                        w.violation(QStringLiteral("response_answered"), QStringLiteral("C08:reply_sent_to_%1:%2").arg(in.type, in.payload),
                                    QStringLiteral("iq #%1 of type %2 (%3, from %4) was answered with %5").arg(in.no).arg(in.type, in.payload, in.senderClass, in.replyTypes.join(QLatin1Char(','))));
                    }
                    continue;
                }
                // a request: exactly one reply, unless the link died around its delivery
                if (in.replies == 0 && !in.linkUpAfter) {
                    w.probe("obligation_lapsed_link_cut");
                    continue;
                }
                ++judged;
                if (in.replies == 0) {
                    w.violation(QStringLiteral("request_not_answered"), QStringLiteral("C08:no_reply:%1:%2:%3%4").arg(in.type, in.payload, in.senderClass, in.sameIdAsPending ? QStringLiteral(":id_of_pending_own_request") : QString()),
                                QStringLiteral("iq #%1 type=%2 payload=%3 from %4 (id %5) got no reply at all (extension set %6)").arg(in.no).arg(in.type, in.payload, in.senderClass, in.id).arg(ext));
                } else if (in.replies > 1) {
                    w.violation(QStringLiteral("request_answered_twice"), QStringLiteral("C08:%1_replies:%2:%3").arg(in.replies).arg(in.type, in.payload),
                                QStringLiteral("iq #%1 type=%2 payload=%3 from %4 got %5 replies (%6)").arg(in.no).arg(in.type, in.payload, in.senderClass).arg(in.replies).arg(in.replyTypes.join(QLatin1Char(','))));
                } else {
                    w.probe("request_answered_once");
                }
            }
            res.nontrivial = judged >= 3 && typesHit.size() >= 2 && handlersHit.size() >= 2;
            w.client->disconnectFromServer();
            w.pump(nullptr);
        }
        res.traceHash = tr.hash.value();
        res.trace = tr.lines;
        return res;
    }
    bool removable(const Plan &plan, int i) override { return i >= 2 || plan.ops[i].kind != QLatin1String("connect"); }
    QVector<Plan> simplerKnobs(const Plan &p) override
    {
        QVector<Plan> out;
        if (p.knob(QStringLiteral("ext")) > 0) {
            Plan q = p;
            q.knobs[QStringLiteral("ext")] = p.knob(QStringLiteral("ext")) - 1;
            out << q;
        }
        if (p.knob(QStringLiteral("sm")) > 0) {
            Plan q = p;
            q.knobs[QStringLiteral("sm")] = 0;
            out << q;
        }
        return out;
    }
};

static EngineRegistrar reg(new C08Engine);

}  // namespace
