// SessionWorld: one real QXmppClient over SimSslSocket/SimLink against a ScriptedServer, plus the scheduler
// primitives (deliver, pump, timers, connect/TLS outcomes, cuts) shared by all `session` properties.
#pragma once
#include "core/engine.h"
#include "net/testclient.h"
#include "peers/scriptedserver.h"

#include "QXmppConfiguration.h"
#include "QXmppLogger.h"

namespace sim {

struct ClientEvent {
    QString kind;    // connected / disconnected / error / state
    QString detail;
    int link;        // index of the TCP connection it happened on (-1: none)
    qint64 at;
    int step;
};

class SessionWorld : public QObject
{
    Q_OBJECT
public:
    SessionWorld(const Plan &plan, Trace &tr, RunResult &res);
    ~SessionWorld() override;

    const Plan &plan;
    Trace &trace;
    RunResult &res;
    ServerProfile profile;
    ScriptedServer *server = nullptr;
    TestClient *client = nullptr;
    QXmppLogger *logger = nullptr;
    QXmppConfiguration config;
    QList<SimLink *> links;
    QVector<ClientEvent> events;
    QStringList clientLog;          // library log lines (non Sent/Received), for oracles such as "Authenticated"
    int stepNo = 0;
    bool connectPending = false;
    bool tlsPending = false;
    int connectedSignals = 0;
    int disconnectedSignals = 0;
    QMap<int, int> connectedPerLink;
    QString pendingHost;
    quint16 pendingPort = 0;
    QStringList connectTargets;     // host:port of every connection attempt

    // construction
    static QXmppConfiguration configFromPlan(const Plan &);
    void createClient(QXmppClient::InitialExtensions ext);
    void connectClient();
    void resolveDns();                              // answer pending (simulated) SRV lookups

    // scheduler primitives
    SimLink *link() const { return links.isEmpty() ? nullptr : links.last(); }
    int linkIndex() const { return links.size() - 1; }
    void resolveConnect(bool ok, int err = QAbstractSocket::ConnectionRefusedError);
    void resolveTls(bool ok);
    bool deliver(int dir, int nbytes = 0);          // one delivery; false if nothing was pending
    // deliver everything in both directions, resolving pending connects/handshakes per policy, until quiescent
    void pump(Prng *r = nullptr, int maxIter = 4000);
    bool fireNextTimer(qint64 withinMs);            // jump the clock to the next timer (if due within the window) and fire it
    void advance(qint64 ms);                        // advance the clock by ms firing every timer that becomes due
    void serverClose();                             // orderly close by the server (</stream:stream> + FIN)
    void cutLink(int err = QAbstractSocket::NetworkError);   // abortive
    void stallLink();                               // half-open
    void serverSend(const QByteArray &xml, bool stanza = true);
    // apply a common op; returns false if the op kind is not a common one
    bool applyCommon(const Op &op);
    void afterStep();
    void quiesce(qint64 simBudgetMs = 0);

    // helpers
    qint64 deliveredToClient(SimLink *l) const { return m_deliveredToClient.value(l, 0); }
    bool serverReadyDelivered() const;              // the element completing negotiation has reached the client
    void violation(const QString &cls, const QString &sig, const QString &detail);
    void fault(const char *k) { res.faults[QString::fromLatin1(k)]++; }
    void probe(const char *k) { res.probes[QString::fromLatin1(k)]++; }
    QString ownBare() const { return client->configuration().jidBare(); }
    std::function<void(SimLink *)> onNewLink;   // lets an engine install its observation hooks on every connection
    int tlsPolicy = 0;   // 0: handshake succeeds, 1: fails, 2: never completes (only explicit ops resolve)

private:
    QMap<SimLink *, qint64> m_deliveredToClient;
    void onLog(QXmppLogger::MessageType, const QString &);
};

// generator helper: draws a conforming server profile + matching client configuration into plan knobs
void drawConformingProfile(Plan &p, Prng &r, bool allowTls = true, bool allowLegacy = false);

}  // namespace sim
