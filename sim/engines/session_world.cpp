#include "session_world.h"

#include "net/simdns.h"

#include "QXmppSasl2UserAgent.h"

#include "QXmppCredentials.h"

#include <QUuid>
#include <QXmlStreamReader>

namespace sim {

QXmppConfiguration SessionWorld::configFromPlan(const Plan &p)
{
    QXmppConfiguration c;
    c.setUser(p.sknob(QStringLiteral("user"), QStringLiteral("alice")));
    c.setDomain(p.sknob(QStringLiteral("domain"), QStringLiteral("example.org")));
    c.setPassword(p.sknob(QStringLiteral("password"), QStringLiteral("correct horse")));
    c.setResource(p.sknob(QStringLiteral("resource"), QStringLiteral("sim")));
    if (!p.knob(QStringLiteral("dnsLookup"), 0)) {
        // explicit host and port; with dnsLookup=1 the client looks up SRV records (simulated DNS: no records), which
        // sends it down its built-in address list: direct TLS on 5223, then plain TCP on 5222
        c.setHost(QStringLiteral("xmpp.sim"));
        c.setPort(5222);
    }
    c.setStreamSecurityMode((QXmppConfiguration::StreamSecurityMode)p.knob(QStringLiteral("tlsMode"), 0));
    c.setUseSASLAuthentication(p.knob(QStringLiteral("useSasl"), 1));
    c.setUseSasl2Authentication(p.knob(QStringLiteral("useSasl2"), 1));
    c.setUseNonSASLAuthentication(p.knob(QStringLiteral("useLegacy"), 0));
    c.setNonSASLAuthMechanism((QXmppConfiguration::NonSASLAuthMechanism)p.knob(QStringLiteral("legacyMech"), 1));
    c.setUseFastTokenAuthentication(p.knob(QStringLiteral("useFast"), 1));
    if (p.sknobs.contains(QStringLiteral("disabledMechs"))) {
        const QString d = p.sknob(QStringLiteral("disabledMechs"));
        c.setDisabledSaslMechanisms(d.isEmpty() ? QStringList() : d.split(QLatin1Char(',')));
    }
    if (!p.sknob(QStringLiteral("prefMech")).isEmpty()) {
        c.setSaslAuthMechanism(p.sknob(QStringLiteral("prefMech")));
    }
    if (p.knob(QStringLiteral("userAgent"), 0)) {
        c.setSasl2UserAgent(QXmppSasl2UserAgent(QUuid(QStringLiteral("{d4565fa7-4d72-4749-b3d3-740edbf87770}")), QStringLiteral("qxsim"), QStringLiteral("simulated device")));
    }
    if (!p.sknob(QStringLiteral("fastToken")).isEmpty()) {
        // a FAST token obtained in an earlier session, restored the way an application restores it
        const QString xml = QStringLiteral("<credentials xmlns=\"org.qxmpp.credentials\"><ht-token mechanism=\"%1\" secret=\"%2\" expiry=\"2031-01-01T00:00:00Z\"/></credentials>")
                                .arg(p.sknob(QStringLiteral("fastTokenMech"), QStringLiteral("HT-SHA-256-NONE")), p.sknob(QStringLiteral("fastToken")));
        QXmlStreamReader r(xml);
        r.readNextStartElement();
        if (auto creds = QXmppCredentials::fromXml(r)) {
            const QString pw = c.password();
            c.setCredentials(*creds);
            c.setPassword(pw);
        }
    }
    c.setAutoReconnectionEnabled(p.knob(QStringLiteral("autoReconnect"), 1));
    c.setKeepAliveInterval((int)p.knob(QStringLiteral("keepAliveInterval"), 60));
    c.setKeepAliveTimeout((int)p.knob(QStringLiteral("keepAliveTimeout"), 20));
    c.setIgnoreSslErrors(false);
    return c;
}

SessionWorld::SessionWorld(const Plan &plan, Trace &tr, RunResult &res) : plan(plan), trace(tr), res(res)
{
    profile = ServerProfile::fromPlan(plan);
    server = new ScriptedServer(profile, plan.seed);
    server->accounts[plan.sknob(QStringLiteral("user"), QStringLiteral("alice"))] = plan.sknob(QStringLiteral("serverPassword"), plan.sknob(QStringLiteral("password"), QStringLiteral("correct horse")));
    server->note = [this](const QString &s) { this->trace.log(s); };
    server->redirectsLeft = (int)plan.knob(QStringLiteral("redirects"), 0);
    server->redirectTarget = plan.sknob(QStringLiteral("redirectTarget"), QStringLiteral("alt.sim:5299"));
    config = configFromPlan(plan);
    tlsPolicy = (int)plan.knob(QStringLiteral("tlsHandshake"), 0);
}

SessionWorld::~SessionWorld()
{
    delete client;
    client = nullptr;
    settle();
    delete server;
    qDeleteAll(links);
}

void SessionWorld::createClient(QXmppClient::InitialExtensions ext)
{
    client = new TestClient(ext);
    logger = new QXmppLogger(client);
    logger->setLoggingType(QXmppLogger::SignalLogging);
    logger->setMessageTypes(QXmppLogger::AnyMessage);
    client->setLogger(logger);
    connect(logger, &QXmppLogger::message, this, [this](QXmppLogger::MessageType t, const QString &m) { onLog(t, m); });
    auto *sock = client->simSocket();
    sock->onConnectRequested = [this](SimSslSocket *s, const QString &host, quint16 port, bool) {
        auto *l = new SimLink;
        l->faults = &res.faults;
        l->end[0] = s;
        s->link = l;
        s->side = 0;
        links.append(l);
        if (onNewLink) {
            onNewLink(l);
        }
        connectPending = true;
        tlsPending = false;
        pendingHost = host;
        pendingPort = port;
        connectTargets << QStringLiteral("%1:%2").arg(host).arg(port);
        trace.log(QStringLiteral("net: connect requested to %1:%2 (attempt %3)").arg(host).arg(port).arg(links.size()));
    };
    sock->onStartClientTls = [this](SimSslSocket *) {
        tlsPending = true;
        trace.log(QStringLiteral("net: client starts TLS handshake"));
    };
    sock->onLocalClose = [this](SimSslSocket *) {
        connectPending = false;
        tlsPending = false;
        trace.log(QStringLiteral("net: client closes socket"));
    };
    connect(client, &QXmppClient::connected, this, [this] {
        ++connectedSignals;
        connectedPerLink[linkIndex()]++;
        events.append({ QStringLiteral("connected"), {}, linkIndex(), g_now_ms, stepNo });
        trace.log(QStringLiteral("client: connected()"));
    });
    connect(client, &QXmppClient::disconnected, this, [this] {
        ++disconnectedSignals;
        events.append({ QStringLiteral("disconnected"), {}, linkIndex(), g_now_ms, stepNo });
        trace.log(QStringLiteral("client: disconnected()"));
    });
    connect(client, &QXmppClient::errorOccurred, this, [this](const QXmppError &e) {
        events.append({ QStringLiteral("error"), e.description, linkIndex(), g_now_ms, stepNo });
        trace.log(QStringLiteral("client: errorOccurred(%1)").arg(e.description));
    });
    connect(client, &QXmppClient::stateChanged, this, [this](QXmppClient::State s) {
        trace.log(QStringLiteral("client: stateChanged(%1)").arg((int)s));
    });
}

void SessionWorld::onLog(QXmppLogger::MessageType t, const QString &m)
{
    switch (t) {
    case QXmppLogger::SentMessage:
        trace.log(QStringLiteral("C> ") + m);
        break;
    case QXmppLogger::ReceivedMessage:
        trace.log(QStringLiteral("C< ") + m);
        break;
    default:
        clientLog << m;
        trace.log(QStringLiteral("lib: ") + m);
    }
}

void SessionWorld::connectClient()
{
    trace.log(QStringLiteral("app: connectToServer"));
    client->connectToServer(config);
    settle();
    resolveDns();
}

void SessionWorld::resolveDns()
{
    // DNS timing is not a dimension of any property here: a lookup is answered as soon as the scheduler looks
    if (!pendingDns().isEmpty()) {
        const bool notFound = plan.knob(QStringLiteral("dnsNotFound"), 1);
        const int n = completeDnsLookups(notFound);
        trace.log(QStringLiteral("dns: %1 SRV lookup(s) answered with %2").arg(n).arg(notFound ? QStringLiteral("NXDOMAIN") : QStringLiteral("no records")));
        probe("dns_lookup_sent_client_down_its_address_list");
        settle();
    }
}

void SessionWorld::resolveConnect(bool ok, int err)
{
    if (!connectPending) {
        return;
    }
    connectPending = false;
    auto *sock = client->simSocket();
    SimLink *l = link();
    if (ok) {
        l->up = true;
        server->accept(l);
        trace.log(QStringLiteral("net: connection %1 established").arg(linkIndex()));
        sock->completeConnect();
        if (sock->directTls) {
            tlsPending = true;
        }
    } else {
        fault("connect_failed");
        trace.log(QStringLiteral("net: connection attempt failed (%1)").arg(err));
        l->dead = true;
        sock->failConnect((QAbstractSocket::SocketError)err);
    }
    settle();
}

void SessionWorld::resolveTls(bool ok)
{
    if (!tlsPending) {
        return;
    }
    tlsPending = false;
    if (!ok) {
        fault("tls_handshake_failed");
    }
    trace.log(QStringLiteral("net: TLS handshake %1").arg(ok ? QStringLiteral("completed") : QStringLiteral("failed")));
    client->simSocket()->completeTls(ok);
    settle();
}

bool SessionWorld::deliver(int dir, int nbytes)
{
    SimLink *l = link();
    if (!l || l->dead || !l->pending(dir)) {
        return false;
    }
    if (dir == 1) {
        // account bytes reaching the client (for "has the completing element arrived" questions)
        int before = l->pendingBytes(1);
        l->deliver(1, nbytes);
        m_deliveredToClient[l] += before - (l->dead ? before : l->pendingBytes(1));
    } else {
        l->deliver(0, nbytes);
    }
    settle();
    return true;
}

void SessionWorld::pump(Prng *r, int maxIter)
{
    for (int i = 0; i < maxIter; ++i) {
        bool did = false;
        if (connectPending) {
            resolveConnect(true);
            did = true;
        }
        if (tlsPending && tlsPolicy != 2) {
            resolveTls(tlsPolicy == 0);
            did = true;
        }
        client->simSocket()->finishDeferredClose();
        SimLink *l = link();
        if (l && !l->dead) {
            int first = r ? (int)r->uniform(2) : 0;
            for (int k = 0; k < 2; ++k) {
                int dir = (first + k) % 2;
                if (l->pending(dir)) {
                    int nbytes = 0;
                    if (r && dir == 1 && r->chance(0.15)) {
                        int pb = l->pendingBytes(1);
                        if (pb > 1) {
                            nbytes = (int)r->range(1, pb - 1);
                            fault("segment_split");
                        }
                    } else if (r && r->chance(0.1)) {
                        nbytes = l->pendingBytes(dir);   // coalesce everything pending
                        fault("segment_coalesce");
                    }
                    deliver(dir, nbytes);
                    did = true;
                    break;
                }
            }
        }
        settle();
        if (!did) {
            return;
        }
    }
    probe("pump_iteration_cap_hit");
}

bool SessionWorld::fireNextTimer(qint64 withinMs)
{
    auto *d = Dispatcher::instance();
    qint64 due = d->nextTimerDue();
    if (due < 0 || due > g_now_ms + withinMs) {
        return false;
    }
    Dispatcher::advanceTo(due);
    d->fireOneDue(0);
    settle();
    resolveDns();
    return true;
}

void SessionWorld::advance(qint64 ms)
{
    auto *d = Dispatcher::instance();
    const qint64 target = g_now_ms + ms;
    int guard = 0;
    for (;;) {
        qint64 due = d->nextTimerDue();
        if (due < 0 || due > target || guard++ > 2000) {
            break;
        }
        Dispatcher::advanceTo(due);
        d->fireOneDue(0);
        settle();
        resolveDns();
    }
    Dispatcher::advanceTo(target);
}

void SessionWorld::serverClose()
{
    if (auto *c = server->current()) {
        fault("peer_close");
        trace.log(QStringLiteral("net: server closes the stream"));
        c->closeStream(true);
    }
}

void SessionWorld::cutLink(int err)
{
    SimLink *l = link();
    if (connectPending) {
        resolveConnect(false, err);
        return;
    }
    if (l && !l->dead && l->up) {
        fault("abortive_cut");
        trace.log(QStringLiteral("net: link cut (error %1), in flight c>s %2 bytes, s>c %3 bytes").arg(err).arg(l->pendingBytes(0)).arg(l->pendingBytes(1)));
        tlsPending = false;
        l->cut(err, err);
        settle();
    }
}

void SessionWorld::stallLink()
{
    SimLink *l = link();
    if (l && !l->dead && l->up && !l->stalled) {
        fault("half_open_stall");
        trace.log(QStringLiteral("net: link stalls (half-open)"));
        l->stalled = true;
        l->q[0].clear();
        l->q[1].clear();
    }
}

void SessionWorld::serverSend(const QByteArray &xml, bool stanza)
{
    if (auto *c = server->current()) {
        if (stanza) {
            c->sendStanza(xml);
        } else {
            c->send(xml);
        }
    }
}

bool SessionWorld::serverReadyDelivered() const
{
    SimLink *l = link();
    if (!l) {
        return false;
    }
    for (auto *c : server->conns) {
        if (c->link == l) {
            return c->sessionReady && m_deliveredToClient.value(l, 0) >= c->readyOffset;
        }
    }
    return false;
}

void SessionWorld::violation(const QString &cls, const QString &sig, const QString &detail)
{
    for (const auto &v : res.violations) {
        if (v.cls == cls && v.signature == sig) {
            return;
        }
    }
    trace.log(QStringLiteral("VIOLATION %1 %2").arg(cls, sig));
    res.violations.append(Violation { cls, sig, detail, stepNo });
}

bool SessionWorld::applyCommon(const Op &op)
{
    const QString &k = op.kind;
    Prng r(mix64(plan.seed, op.salt));
    if (k == QLatin1String("connect")) {
        connectClient();
    } else if (k == QLatin1String("connok")) {
        resolveConnect(true);
    } else if (k == QLatin1String("connfail")) {
        resolveConnect(false, (int)op.arg(0, QAbstractSocket::ConnectionRefusedError));
    } else if (k == QLatin1String("tlsok")) {
        resolveTls(true);
    } else if (k == QLatin1String("tlsfail")) {
        resolveTls(false);
    } else if (k == QLatin1String("deliver")) {
        int dir = (int)op.arg(0);
        int nbytes = (int)op.arg(1);
        if (nbytes < 0 && link()) {
            // negative: split the pending data at a salt-chosen position
            int pb = link()->pendingBytes(dir);
            nbytes = pb > 1 ? (int)r.range(1, pb - 1) : 0;
            if (pb > 1) {
                fault("segment_split");
            }
        }
        deliver(dir, nbytes);
    } else if (k == QLatin1String("pump")) {
        pump(op.arg(0) ? &r : nullptr);
    } else if (k == QLatin1String("timer")) {
        fireNextTimer(op.arg(0, 120000));
    } else if (k == QLatin1String("advance")) {
        advance(op.arg(0, 1000));
    } else if (k == QLatin1String("drain")) {
        settle();
    } else if (k == QLatin1String("sclose")) {
        serverClose();
    } else if (k == QLatin1String("cut")) {
        cutLink((int)op.arg(0, QAbstractSocket::NetworkError));
    } else if (k == QLatin1String("stall")) {
        stallLink();
    } else if (k == QLatin1String("disconnect")) {
        trace.log(QStringLiteral("app: disconnectFromServer"));
        client->disconnectFromServer();
        settle();
    } else if (k == QLatin1String("srv")) {
        serverSend(op.str(0).toUtf8(), op.arg(0, 1));
    } else if (k == QLatin1String("restart")) {
        fault("server_restart");
        trace.log(QStringLiteral("net: server restarts, SM sessions forgotten"));
        server->forgetSmSessions();
        cutLink(QAbstractSocket::RemoteHostClosedError);
    } else {
        return false;
    }
    return true;
}

void SessionWorld::afterStep()
{
    ++stepNo;
    res.steps = stepNo;
    res.simMs = g_now_ms;
}

void SessionWorld::quiesce(qint64 simBudgetMs)
{
    pump(nullptr);
    const qint64 end = g_now_ms + simBudgetMs;
    int guard = 0;
    while (simBudgetMs > 0 && guard++ < 500) {
        qint64 due = Dispatcher::instance()->nextTimerDue();
        if (due < 0 || due > end) {
            break;
        }
        fireNextTimer(end - g_now_ms);
        pump(nullptr);
    }
}

// ------------------------------------------------------------------------------------------------

void drawConformingProfile(Plan &p, Prng &r, bool allowTls, bool allowLegacy)
{
    auto &k = p.knobs;
    auto &s = p.sknobs;
    static const char *mechSets[] = {
        "SCRAM-SHA-1", "SCRAM-SHA-256,SCRAM-SHA-1", "SCRAM-SHA-512,SCRAM-SHA-256,SCRAM-SHA-1,PLAIN", "DIGEST-MD5", "PLAIN,DIGEST-MD5,SCRAM-SHA-1",
        "SCRAM-SHA3-512,SCRAM-SHA-512", "ANONYMOUS,SCRAM-SHA-256",
    };
    int arche = r.weighted({ 30, allowTls ? 20 : 0, 25, 10, allowLegacy ? 10 : 0 });
    k[QStringLiteral("sm")] = r.weighted({ 25, 25, 50 });
    k[QStringLiteral("csi")] = r.chance(0.5);
    k[QStringLiteral("session")] = r.chance(0.3);
    k[QStringLiteral("scramIter")] = r.pick(QVector<int> { 1, 2, 64, 4096 });
    k[QStringLiteral("scramFinalInSuccess")] = r.chance(0.3);
    k[QStringLiteral("hdrId")] = 1;
    s[QStringLiteral("sasl1")] = QString::fromLatin1(mechSets[r.uniform(7)]);
    switch (arche) {
    case 0:   // SASL without STARTTLS
        break;
    case 1:   // STARTTLS then SASL
        k[QStringLiteral("tls")] = r.chance(0.5) ? 1 : 2;
        k[QStringLiteral("tlsMode")] = r.chance(0.5) ? 0 : 2;
        break;
    case 2:   // SASL2 + bind2
        s[QStringLiteral("sasl2")] = QString::fromLatin1(mechSets[r.uniform(6)]);
        k[QStringLiteral("bind2")] = 1;
        {
            QStringList f;
            if (k[QStringLiteral("sm")] && r.chance(0.8)) {
                f << QStringLiteral("urn:xmpp:sm:3");
            }
            if (r.chance(0.5)) {
                f << QStringLiteral("urn:xmpp:carbons:2");
            }
            if (r.chance(0.5)) {
                f << QStringLiteral("urn:xmpp:csi:0");
            }
            s[QStringLiteral("bind2f")] = f.join(QLatin1Char(','));
        }
        if (r.chance(0.5)) {
            s[QStringLiteral("fast")] = QStringLiteral("HT-SHA-256-NONE");
            k[QStringLiteral("userAgent")] = 1;
        }
        if (allowTls && r.chance(0.4)) {
            k[QStringLiteral("tls")] = 2;
        }
        break;
    case 3:   // SASL2 without bind2 (legacy bind afterwards)
        s[QStringLiteral("sasl2")] = QString::fromLatin1(mechSets[r.uniform(6)]);
        break;
    case 4:   // legacy XEP-0078 (version-less header or advertised feature)
        k[QStringLiteral("useLegacy")] = 1;
        k[QStringLiteral("legacy")] = 1;
        if (r.chance(0.5)) {
            k[QStringLiteral("hdrVersion")] = 0;
        } else {
            s[QStringLiteral("sasl1")] = QString();
            k[QStringLiteral("useSasl")] = 0;
        }
        k[QStringLiteral("legacyMech")] = r.uniform(2);
        k[QStringLiteral("sm")] = 0;
        break;
    }
    // the library disables PLAIN by default; keep that unless only PLAIN/ANONYMOUS could work
    if (s[QStringLiteral("sasl1")] == QLatin1String("PLAIN")) {
        s[QStringLiteral("disabledMechs")] = QString();
    }
    if (k.value(QStringLiteral("sm")) == 2 && r.chance(0.2)) {
        s[QStringLiteral("smLocation")] = QStringLiteral("resume.sim:5299");
    }
    k[QStringLiteral("autoReconnect")] = r.chance(0.7);
    // the timeout timer is re-armed by every ping, so a half-open link is only noticed when timeout < interval
    // (the library's default relation, 20 s < 60 s); other combinations are a configuration matter, not a drop
    k[QStringLiteral("keepAliveInterval")] = r.pick(QVector<int> { 5, 30, 60, 120 });
    k[QStringLiteral("keepAliveTimeout")] = k[QStringLiteral("keepAliveInterval")] > 20 ? r.pick(QVector<int> { 1, 3, 20 }) : r.pick(QVector<int> { 1, 3 });
}

}  // namespace sim
