// C10 — losing the connection at any point leaves a consistent client that can reconnect.
#include "session_world.h"

#include "QXmppIq.h"
#include "QXmppTask.h"

using namespace sim;

namespace {

struct TrackedIq {
    int fired = 0;
    bool error = false;
    int issuedOnLink = 0;
    QString id;
};

class C10Engine : public Engine
{
public:
    QString property() const override { return QStringLiteral("C10"); }
    QString describe() const override
    {
        return QStringLiteral("real: QXmppClient, QXmppOutgoingClient (negotiation, SASL/SASL2/bind/SM managers, reconnect + keep-alive timers), XmppSocket ; "
                              "stub: SimSslSocket/SimLink transport, TLS handshake outcome, ScriptedServer (conforming profiles), simulated clock");
    }

    Plan generate(quint64 seed, const QString &) override
    {
        Plan p;
        Prng r(derive(seed, "c10"));
        drawConformingProfile(p, r);
        if (r.chance(0.15)) {
            p.knobs[QStringLiteral("redirects")] = r.range(1, 2);   // see-other-host on the first connection(s)
        }
        if (r.chance(0.15)) {
            // no explicit host: SRV lookup (simulated: no records) and the built-in address list, direct TLS on 5223 first,
            // plain TCP on 5222 next; a socket error during negotiation makes the client fail over to the next address
            p.knobs[QStringLiteral("dnsLookup")] = 1;
        }
        p.ops.append(mkop(QStringLiteral("connect")));
        // the server's stream-management offer may change between connections: with or without resumption (own stream,
        // the other draws of a seed stay what they were)
        Prng rs(derive(seed, "c10sm"));
        int attempts = (int)r.range(1, 3);
        for (int a = 0; a < attempts; ++a) {
            // cut after k deliveries (k beyond the negotiation lands in the established session)
            int k = (int)r.range(0, 22);
            int kind = r.weighted({ 28, 36, 10, 8, 10, 8 });   // 0 server close, 1 abortive cut, 2 stall (session only), 3 connect refused, 4 clean </stream> close, 5 see-other-host at this point
            int iqs = (int)r.uniform(4);
            // the (conforming) server may have expired the stream-management session by the time the client comes back
            const int expire = r.chance(0.25) ? 1 : 0;
            // ... and so may the authentication it offers: from SASL 2 (with bind2 and inline stream management) to plain
            // SASL with legacy resource binding - what one connection learnt about the stream must not be applied to the next
            p.ops.append(mkop(QStringLiteral("att"), { k, kind, iqs, expire, (qint64)rs.weighted({ 70, 18, 12 }), (qint64)rs.weighted({ 85, 15 }) }, {}, (quint32)r.next()));
            p.ops.append(mkop(QStringLiteral("wait"), { (qint64)r.uniform(2) }, {}, (quint32)r.next()));
        }
        if (r.chance(0.2)) {
            p.ops.append(mkop(QStringLiteral("expire")));
        }
        p.ops.append(mkop(QStringLiteral("clean")));
        return p;
    }

    RunResult execute(const Plan &plan, bool verbose) override
    {
        RunResult res;
        Trace tr(verbose);
        {
            SessionWorld w(plan, tr, res);
            w.createClient(QXmppClient::BasicExtensions);
            QObject ctx;
            QList<std::shared_ptr<TrackedIq>> iqs;
            bool cutInsideNegotiation = false, cutWithOutstanding = false;
            // what the server has told the client about stream management so far (elements that REACHED the client): the world's
            // answer to "can the client's session be resumed?", independent of what the library believes
            enum ClientSm { SmNone, SmResumable, SmNotResumable } clientSm = SmNone;
            w.onNewLink = [&](SimLink *l) {
                // one framer per connection: deliveries may split an element anywhere, only complete top-level elements count
                auto framer = std::make_shared<simxml::Framer>();
                l->onDeliver = [&, framer](int dir, const QByteArray &bytes) {
                    if (dir != 1) {
                        return;
                    }
                    simxml::Framer &f = *framer;
                    f.feed(bytes);
                    for (const auto &it : f.take()) {
                        if (it.kind != simxml::Item::Element || !it.text.contains("urn:xmpp:sm:3")) {
                            continue;
                        }
                        const QByteArray &e = it.text;
                        if (e.contains("<failed ") || e.contains("<failed>") || e.contains("<failed/")) {
                            clientSm = SmNone;
                        }
                        if (e.contains("<resumed ")) {
                            clientSm = SmResumable;
                        }
                        const int ie = e.indexOf("<enabled ");
                        if (ie >= 0) {
                            const QByteArray tagText = e.mid(ie, e.indexOf('>', ie) - ie);
                            clientSm = (tagText.contains("resume='true'") || tagText.contains("resume=\"true\"") || tagText.contains("resume='1'")) ? SmResumable : SmNotResumable;
                            if (clientSm == SmNotResumable) {
                                w.probe("sm_enabled_without_resumption_delivered");
                            }
                        }
                    }
                };
            };

            auto checkConnectedLegit = [&] {
                // `connected` at most once per TCP connection and only after the completing element has reached the client
                for (auto it = w.connectedPerLink.begin(); it != w.connectedPerLink.end(); ++it) {
                    if (it.value() > 1) {
                        w.violation(QStringLiteral("connected_twice"), QStringLiteral("C10:connected_more_than_once_per_connection"),
                                    QStringLiteral("connected() fired %1 times on connection %2").arg(it.value()).arg(it.key()));
                    }
                }
            };
            int lastConnectedSeen = 0;
            auto onStepInvariants = [&] {
                if (w.connectedSignals > lastConnectedSeen) {
                    lastConnectedSeen = w.connectedSignals;
                    if (!w.serverReadyDelivered()) {
                        w.violation(QStringLiteral("connected_early"), QStringLiteral("C10:connected_before_negotiation_finished"),
                                    QStringLiteral("connected() fired on connection %1 before the server's completing element was delivered").arg(w.linkIndex()));
                    }
                }
                checkConnectedLegit();
                // a session may only be reported while the connection it was negotiated on is the current one
                if ((w.client->isConnected() || w.client->state() == QXmppClient::ConnectedState) && !w.serverReadyDelivered()) {
                    w.violation(QStringLiteral("session_reported_during_negotiation"), QStringLiteral("C10:session_reported_before_negotiation_finished"),
                                QStringLiteral("isConnected()/state() report a session on connection %1 although the server's completing element has not been delivered on it").arg(w.linkIndex()));
                }
            };
            // applications commonly re-issue a request from its completion handler when it failed (30 % of the runs)
            const bool retryPolicy = mix64(plan.seed, 0x7e7c) % 100 < 30;
            int retriesLeft = 6;
            std::function<void(const QString &)> issueOne = [&](const QString &to) {
                QXmppIq iq(QXmppIq::Get);
                iq.setTo(to);
                auto t = std::make_shared<TrackedIq>();
                t->issuedOnLink = w.linkIndex();
                t->id = iq.id();
                iqs.append(t);
                w.client->sendIq(std::move(iq)).then(&ctx, [&, t, to](QXmppClient::IqResult &&r) {
                    t->fired++;
                    t->error = std::holds_alternative<QXmppError>(r);
                    if (retryPolicy && t->error && t->fired == 1 && retriesLeft > 0 && w.client) {
                        --retriesLeft;
                        w.probe("request_reissued_from_its_completion_handler");
                        issueOne(to);
                    }
                });
            };
            auto issueIqs = [&](int n) {
                for (int i = 0; i < n; ++i) {
                    issueOne(QStringLiteral("peer%1@remote.example/x").arg(i));
                }
                settle();
            };
            auto checkDisconnectedState = [&](const QString &where, bool orderlyEndOfSession = false) {
                if (w.client->state() != QXmppClient::DisconnectedState || w.client->isConnected() || w.client->isAuthenticated()) {
                    w.violation(QStringLiteral("inconsistent_after_loss"), QStringLiteral("C10:not_disconnected_after_loss:") + where,
                                QStringLiteral("after the connection was lost: state=%1 isConnected=%2 isAuthenticated=%3")
                                    .arg((int)w.client->state()).arg(w.client->isConnected()).arg(w.client->isAuthenticated()));
                }
                // outstanding requests: completed (with an error) unless the session is resumable. An established session whose
                // stream the server closed in an orderly way is not resumable whatever the library thinks (XEP-0198 section 5)
                if (orderlyEndOfSession) {
                    w.probe("session_ended_by_orderly_close");
                }
                if (clientSm != SmResumable && w.client->smCanResume()) {
                    w.probe("library_believes_resumable_world_says_no");
                }
                if (orderlyEndOfSession || clientSm != SmResumable || !w.client->smCanResume()) {
                    for (const auto &t : iqs) {
                        if (t->fired == 0) {
                            w.violation(QStringLiteral("request_left_pending"), QStringLiteral("C10:iq_pending_after_nonresumable_loss:") + where,
                                        QStringLiteral("request %1 issued on connection %2 neither completed nor failed although the session cannot be resumed").arg(t->id).arg(t->issuedOnLink));
                        }
                    }
                }
                for (const auto &t : iqs) {
                    if (t->fired > 1) {
                        w.violation(QStringLiteral("request_completed_twice"), QStringLiteral("C10:iq_completed_twice"), t->id);
                    }
                }
            };

            for (const auto &op : plan.ops) {
                Prng r(mix64(plan.seed, op.salt));
                if (op.kind == QLatin1String("att")) {
                    int k = (int)op.arg(0);
                    const int kind = (int)op.arg(1);
                    const int nIq = (int)op.arg(2);
                    if (w.client->state() == QXmppClient::DisconnectedState && !w.connectPending) {
                        // nothing to cut
                        w.afterStep();
                        continue;
                    }
                    if ((kind == 3 || k == 0) && w.connectPending) {
                        // a cut before the TCP connection exists is a failed connection attempt
                        w.resolveConnect(false);
                        cutInsideNegotiation = true;
                        onStepInvariants();
                        if (w.connectPending) {
                            // the client went on to the next address of its list
                            w.probe("failed_over_to_next_address");
                        } else {
                            checkDisconnectedState(QStringLiteral("connect_refused"));
                        }
                        w.afterStep();
                        continue;
                    }
                    // deliver k segments (elements), one at a time
                    int delivered = 0;
                    int idle = 0;
                    bool issued = false;
                    while (delivered < k && idle < 3) {
                        if (w.connectPending) {
                            w.resolveConnect(true);
                        } else if (w.tlsPending) {
                            w.resolveTls(true);
                        } else if (w.link() && !w.link()->dead && w.link()->pending(0)) {
                            w.deliver(0);
                            ++delivered;
                        } else if (w.link() && !w.link()->dead && w.link()->pending(1)) {
                            int nb = 0;
                            if (r.chance(0.1) && w.link()->pendingBytes(1) > 1) {
                                nb = (int)r.range(1, w.link()->pendingBytes(1) - 1);
                                w.fault("segment_split");
                            }
                            w.deliver(1, nb);
                            ++delivered;
                        } else {
                            ++idle;
                            if (w.client->isConnected() && !issued && nIq > 0) {
                                issueIqs(nIq);
                                issued = true;
                                idle = 0;
                            }
                        }
                        onStepInvariants();
                        if (w.client->state() == QXmppClient::DisconnectedState && !w.connectPending) {
                            break;
                        }
                    }
                    if (w.client->state() == QXmppClient::DisconnectedState && !w.connectPending) {
                        w.afterStep();
                        continue;   // the attempt ended by itself (e.g. authentication cannot proceed)
                    }
                    const bool established = w.client->isConnected();
                    if (established && !issued && nIq > 0) {
                        issueIqs(nIq);
                        // requests may or may not reach the server before the cut
                        if (r.chance(0.5)) {
                            w.pump(nullptr);
                        }
                    }
                    int outstanding = 0;
                    for (const auto &t : iqs) {
                        outstanding += t->fired == 0;
                    }
                    if (!established) {
                        cutInsideNegotiation = true;
                        w.probe("cut_inside_negotiation");
                    } else {
                        w.probe("cut_in_established_session");
                    }
                    if (outstanding) {
                        cutWithOutstanding = true;
                        w.probe("cut_with_outstanding_requests");
                    }
                    if (w.tlsPending) {
                        w.probe("cut_during_tls_handshake");
                    }
                    if (w.client->isAuthenticated() && !established) {
                        w.probe("cut_between_auth_and_session");
                    }
                    QString where;
                    const int linksBefore = w.links.size();
                    if (w.connectPending) {
                        // the TCP connection of this attempt (e.g. the one following a redirect) does not exist yet
                        w.resolveConnect(false);
                        where = QStringLiteral("connect_refused");
                    } else
                    switch (kind) {
                    case 0:
                        if (!w.server->current()) {
                            break;   // the server side of this connection is already gone (e.g. it redirected): nothing to cut
                        }
                        w.serverClose();
                        w.pump(nullptr);
                        where = QStringLiteral("server_close");
                        break;
                    case 2:
                        if (established) {
                            w.stallLink();
                            // keep-alive must notice: ping interval + timeout
                            {
                                int guard = 0;
                                while (w.client->state() != QXmppClient::DisconnectedState && guard++ < 12) {
                                    if (!w.fireNextTimer(400000)) {
                                        break;
                                    }
                                    onStepInvariants();
                                }
                            }
                            where = QStringLiteral("half_open_stall");
                            break;
                        }
                        [[fallthrough]];
                    case 1:
                    case 3:
                        w.cutLink(r.chance(0.5) ? QAbstractSocket::NetworkError : QAbstractSocket::SocketTimeoutError);
                        where = QStringLiteral("abortive_cut");
                        break;
                    case 5:
                        if (auto *c = w.server->current()) {
                            // the server redirects this stream (possibly an established session) to another host
                            w.fault("see_other_host_mid_stream");
                            c->send("<stream:error><see-other-host xmlns='urn:ietf:params:xml:ns:xmpp-streams'>alt.sim:5299</see-other-host></stream:error>");
                            c->closeStream(true);
                            // deliver until the client has left this connection
                            SimLink *l = w.link();
                            for (int guard = 0; guard < 40 && w.link() == l && (w.deliver(1) || w.deliver(0)); ++guard) {
                                onStepInvariants();
                            }
                            where = QStringLiteral("redirect");
                        }
                        break;
                    case 4:
                        if (!w.server->current()) {
                            break;
                        }
                        // the server ends the stream cleanly and waits for the client to close
                        if (auto *c = w.server->current()) {
                            w.fault("server_stream_end");
                            c->send("</stream:stream>");
                        }
                        w.pump(nullptr);
                        w.serverClose();
                        w.pump(nullptr);
                        where = QStringLiteral("stream_end");
                        break;
                    }
                    settle();
                    onStepInvariants();
                    if (op.arg(3) == 1 && !where.isEmpty()) {
                        w.fault("server_expired_sm_sessions");
                        w.server->forgetSmSessions();
                    }
                    if (op.arg(5) == 1 && !w.server->profile.sasl2.isEmpty()) {
                        w.fault("server_offers_only_plain_sasl_and_legacy_bind_from_now_on");
                        w.server->profile.sasl2.clear();
                        if (w.server->profile.sasl1.isEmpty()) {
                            w.server->profile.sasl1 = QStringList { QStringLiteral("SCRAM-SHA-1") };
                        }
                    }
                    if (op.arg(4) != 0 && w.server->profile.sm != 0 && w.server->profile.sm != (int)op.arg(4)) {
                        w.fault(op.arg(4) == 1 ? "server_offers_sm_without_resumption_from_now_on" : "server_offers_sm_with_resumption_from_now_on");
                        w.server->profile.sm = (int)op.arg(4);
                    }
                    if (where.isEmpty()) {
                        w.probe("nothing_to_cut");
                    } else if (w.connectPending || w.links.size() > linksBefore) {
                        // a new connection was started synchronously (redirect, or next address of the list)
                        w.probe("reconnect_started_synchronously");
                    } else {
                        checkDisconnectedState(where + (established ? QStringLiteral(":session") : QStringLiteral(":negotiation")),
                                               established && (where == QLatin1String("server_close") || where == QLatin1String("stream_end")));
                    }
                } else if (op.kind == QLatin1String("expire")) {
                    w.fault("server_expired_sm_sessions");
                    w.server->forgetSmSessions();
                } else if (op.kind == QLatin1String("wait")) {
                    if (w.client->state() != QXmppClient::DisconnectedState || w.connectPending) {
                        w.afterStep();
                        continue;
                    }
                    if (op.arg(0) == 0 && w.client->reconnectTimerActive()) {
                        w.probe("reconnect_by_timer");
                        int guard = 0;
                        while (!w.connectPending && guard++ < 6 && w.fireNextTimer(130000)) {
                        }
                    } else {
                        w.probe("reconnect_by_application");
                        w.connectClient();
                    }
                    // the next attempt must start from scratch: first thing on the wire is a stream header
                    if (w.connectPending) {
                        SimLink *l = w.link();
                        w.resolveConnect(true);
                        if (!l->wire.isEmpty() && l->wire.first().dir == 0) {
                            const QByteArray first = l->wire.first().data;
                            if (!first.contains("<stream:stream")) {
                                w.violation(QStringLiteral("stale_first_element"), QStringLiteral("C10:next_attempt_does_not_start_with_stream_header"),
                                            QString::fromUtf8(first.left(200)));
                            }
                        }
                    }
                } else if (op.kind == QLatin1String("clean")) {
                    // faults have stopped: a connection attempt must now succeed
                    if (w.client->state() == QXmppClient::DisconnectedState && !w.connectPending) {
                        if (w.client->reconnectTimerActive()) {
                            int guard = 0;
                            while (!w.connectPending && guard++ < 6 && w.fireNextTimer(130000)) {
                            }
                        }
                        if (!w.connectPending && w.client->state() == QXmppClient::DisconnectedState) {
                            w.connectClient();
                        }
                    }
                    int guard = 0;
                    while (!w.client->isConnected() && guard++ < 60) {
                        bool did = false;
                        if (w.connectPending) {
                            w.resolveConnect(true);
                            did = true;
                        } else if (w.tlsPending) {
                            w.resolveTls(true);
                            did = true;
                        } else if (w.deliver(0) || w.deliver(1)) {
                            did = true;
                        }
                        onStepInvariants();
                        if (!did) {
                            break;
                        }
                    }
                    w.pump(nullptr);
                    onStepInvariants();
                    if (!w.client->isConnected() || !w.client->isAuthenticated() || w.client->state() != QXmppClient::ConnectedState) {
                        w.violation(QStringLiteral("cannot_reconnect"), QStringLiteral("C10:clean_attempt_does_not_establish_session"),
                                    QStringLiteral("with faults stopped the next attempt did not reach connected (state=%1 auth=%2, %3 attempts, targets %4)")
                                        .arg((int)w.client->state()).arg(w.client->isAuthenticated()).arg(w.links.size()).arg(w.connectTargets.join(QLatin1Char(' '))));
                    } else {
                        w.probe("final_session_established");
                        if (w.connectTargets.last().startsWith(QLatin1String("alt.sim"))) {
                            w.probe("final_session_after_redirect");
                        }
                        if (auto *c = w.server->current()) {
                            if (c->sm && c->sm->attached && w.client->streamManagementState() == QXmppClient::ResumedStream) {
                                w.probe("final_session_is_resumption");
                            }
                        }
                        // a session that is not a resumption cannot bring replies to requests of earlier connections:
                        // whatever had been retained for a resumable session must have been completed by now
                        const bool resumedTruth = w.server->current() ? w.server->current()->resumedHere : w.client->streamManagementState() == QXmppClient::ResumedStream;
                        if (!resumedTruth) {
                            for (const auto &t : iqs) {
                                if (t->fired == 0 && t->issuedOnLink < w.linkIndex()) {
                                    w.violation(QStringLiteral("request_left_pending"), QStringLiteral("C10:iq_pending_after_new_session_opened"),
                                                QStringLiteral("request %1 issued on connection %2 is still pending although connection %3 opened a session that is not a resumption").arg(t->id).arg(t->issuedOnLink).arg(w.linkIndex()));
                                }
                            }
                        }
                    }
                } else {
                    w.applyCommon(op);
                    onStepInvariants();
                }
                w.afterStep();
            }
            // what was left over from an interrupted negotiation must not act on a later connection: no stanza is
            // transmitted twice on one connection (a retransmission after a loss happens on the *next* connection, once)
            {
                QMap<QPair<int, QByteArray>, int> seen;
                for (const auto &it : std::as_const(w.server->received)) {
                    if (it.isStanza && !it.id.isEmpty()) {
                        if (++seen[qMakePair(it.conn, it.raw)] == 2) {
                            w.violation(QStringLiteral("inconsistent_after_loss"), QStringLiteral("C10:stanza_transmitted_twice_on_one_connection"),
                                        QStringLiteral("connection %1 carried this stanza twice: %2").arg(it.conn).arg(QString::fromUtf8(it.raw.left(160))));
                        }
                    }
                }
            }
            // end of run: log out and destroy; every request ever issued has completed exactly once
            w.client->disconnectFromServer();
            w.pump(nullptr);
            delete w.client;
            w.client = nullptr;
            settle();
            for (const auto &t : iqs) {
                if (t->fired != 1) {
                    w.violation(QStringLiteral("request_not_exactly_once"), QStringLiteral("C10:iq_fired_%1_times_by_end").arg(t->fired), t->id);
                }
            }
            res.nontrivial = cutInsideNegotiation || cutWithOutstanding;
        }
        res.traceHash = tr.hash.value();
        res.trace = tr.lines;
        return res;
    }

    QVector<Op> simplerOps(const Op &op) override
    {
        QVector<Op> out;
        if (op.kind == QLatin1String("att")) {
            if (op.arg(2) > 0) {
                Op o = op;
                o.a[2] = 0;
                out << o;
            }
            if (op.arg(0) > 0) {
                Op o = op;
                o.a[0] = op.arg(0) - 1;
                out << o;
                Op o2 = op;
                o2.a[0] = op.arg(0) / 2;
                out << o2;
            }
        }
        return out;
    }
    bool removable(const Plan &plan, int i) override { return plan.ops[i].kind != QLatin1String("connect") && plan.ops[i].kind != QLatin1String("clean"); }
};

static EngineRegistrar reg(new C10Engine);

}  // namespace
