// C09 — stream management: a stanza is confirmed only when acked, else resent, in order; reported h is exact.
#include "session_world.h"

#include "QXmppIq.h"
#include "QXmppMessage.h"
#include "QXmppNonza.h"
#include <QXmlStreamWriter>
#include "QXmppPresence.h"
#include "QXmppSendResult.h"
#include "QXmppTask.h"

using namespace sim;

namespace {

struct TrackedSend {
    QString marker;
    int fired = 0;
    bool ok = false;
    bool acked = false;
    bool covered = false;      // the model saw an h covering it reach the client
    bool numbered = false;     // written while SM was on: must wait for an ack
    int step = -1;
};

struct OutSt {
    QByteArray raw;
    unsigned seq;
    std::shared_ptr<TrackedSend> task;
};

static const char *NS_SM = "urn:xmpp:sm:3";

class C09Engine : public Engine
{
public:
    QString property() const override { return QStringLiteral("C09"); }
    QString describe() const override
    {
        return QStringLiteral("real: QXmppClient, QXmppOutgoingClient, StreamAckManager, C2sStreamManager, XmppSocket, keep-alive/reconnect timers ; "
                              "stub: SimSslSocket/SimLink, ScriptedServer with its own XEP-0198 counters, simulated clock ; oracle: executable XEP-0198 reference model fed from the wire");
    }

    Plan generate(quint64 seed, const QString &tier) override
    {
        Plan p;
        Prng r(derive(seed, "c09"));
        auto &k = p.knobs;
        auto &s = p.sknobs;
        // a server profile with stream management
        k[QStringLiteral("sm")] = r.chance(0.8) ? 2 : 1;
        // the server may bind another address than the configured one; the application reconnects with its stored configuration
        k[QStringLiteral("otherJid")] = (qint64)(mix64(seed, 0x07e1) % 100 < 15);
        k[QStringLiteral("autoAck")] = 0;
        k[QStringLiteral("csi")] = r.chance(0.6);
        k[QStringLiteral("scramIter")] = 1;
        if (r.chance(0.35)) {
            s[QStringLiteral("sasl2")] = QStringLiteral("SCRAM-SHA-1");
            k[QStringLiteral("bind2")] = 1;
            s[QStringLiteral("bind2f")] = r.chance(0.8) ? QStringLiteral("urn:xmpp:sm:3") : QString();
        } else {
            s[QStringLiteral("sasl1")] = r.chance(0.5) ? QStringLiteral("SCRAM-SHA-1") : QStringLiteral("SCRAM-SHA-256,SCRAM-SHA-1");
        }
        k[QStringLiteral("autoReconnect")] = 0;
        k[QStringLiteral("keepAliveInterval")] = r.pick(QVector<int> { 5, 30, 60 });
        k[QStringLiteral("keepAliveTimeout")] = r.pick(QVector<int> { 1, 3 });
        k[QStringLiteral("ext")] = r.chance(0.5);   // 0: no extensions, 1: basic extensions (extra library traffic)
        p.ops.append(mkop(QStringLiteral("connect")));
        p.ops.append(mkop(QStringLiteral("pump")));
        const int n = (int)r.range(3, tier == QLatin1String("thorough") ? 60 : 40);
        for (int i = 0; i < n; ++i) {
            quint32 salt = (quint32)r.next();
            if (r.chance(0.05)) {
                // an application-level nonza (QXmppClient::sendPacket(const QXmppNonza &)): not a stanza, never counted
                p.ops.append(mkop(QStringLiteral("nonza"), {}, {}, salt));
                continue;
            }
            switch (r.weighted({ 28, 4, 14, 5, 10, 14, 10, 8, 7, 2 })) {
            case 0:
                p.ops.append(mkop(QStringLiteral("send"), { (qint64)r.uniform(3) }, {}, salt));
                break;
            case 1:
                p.ops.append(mkop(QStringLiteral("csi"), { (qint64)r.uniform(2) }, {}, salt));
                break;
            case 2:
                p.ops.append(mkop(QStringLiteral("ack"), { r.weighted({ 60, 15, 10, 15 }), r.range(1, 4) }, {}, salt));
                break;
            case 3:
                p.ops.append(mkop(QStringLiteral("ackreq"), {}, {}, salt));
                break;
            case 4:
                p.ops.append(mkop(QStringLiteral("srvst"), { (qint64)r.uniform(4) }, {}, salt));
                break;
            case 5:
                p.ops.append(mkop(QStringLiteral("dl"), { (qint64)r.uniform(2) }, {}, salt));
                break;
            case 6:
                p.ops.append(mkop(QStringLiteral("pump"), {}, {}, salt));
                break;
            case 7:
                p.ops.append(mkop(QStringLiteral("lose"), { r.weighted({ 20, 45, 10, 25 }) }, {}, salt));
                break;
            case 8:
                p.ops.append(mkop(QStringLiteral("reconn"), { r.weighted({ 45, 20, 12, 12, 11 }) }, {}, salt));
                if (r.chance(0.8)) {
                    p.ops.append(mkop(QStringLiteral("pump"), {}, {}, (quint32)r.next()));
                }
                break;
            case 9:
                p.ops.append(mkop(QStringLiteral("advance"), { r.range(1000, 70000) }, {}, salt));
                break;
            }
        }
        return p;
    }

    RunResult execute(const Plan &plan, bool verbose) override
    {
        RunResult res;
        Trace tr(verbose);
        {
            SessionWorld w(plan, tr, res);
            QObject ctx;
            // ---------------- reference model state
            bool smOn = false;
            unsigned outSeq = 0;
            QList<OutSt> unacked;
            unsigned inCount = 0;
            QList<QByteArray> expectedResend;
            bool adversarial = false;
            QSet<QByteArray> deadSessions;      // previd values the server has answered with <failed/>
            QByteArray lastResumePrevid;
            bool lossWithUnacked = false, smAfterLoss = false;
            int lastAckSent = 0;
            QList<std::shared_ptr<TrackedSend>> sends;
            QMap<QString, std::shared_ptr<TrackedSend>> byMarker;
            int msgNo = 0, nonzaNo = 0;

            auto cover = [&](unsigned h) {
                while (!unacked.isEmpty() && unacked.first().seq <= h) {
                    if (unacked.first().task) {
                        unacked.first().task->covered = true;
                    }
                    unacked.removeFirst();
                }
            };
            auto attrOf = [](const QByteArray &el, const char *name) -> QByteArray {
                QByteArray key = QByteArray(" ") + name + "=";
                int i = el.indexOf(key);
                if (i < 0) {
                    return {};
                }
                i += key.size();
                char q = el[i];
                int e = el.indexOf(q, i + 1);
                return el.mid(i + 1, e - i - 1);
            };
            auto isStanzaText = [](const QByteArray &d) {
                return d.startsWith("<message") || d.startsWith("<presence") || d.startsWith("<iq");
            };

            w.onNewLink = [&](SimLink *l) {
                l->onWrite = [&](int from, const QByteArray &d) {
                    if (from != 0) {
                        return;
                    }
                    if (isStanzaText(d)) {
                        if (!expectedResend.isEmpty()) {
                            if (d != expectedResend.first()) {
                                w.violation(QStringLiteral("resend_wrong"), QStringLiteral("C09:resend:not_the_uncovered_stanzas_in_order"),
                                            QStringLiteral("after SM was (re)enabled the client wrote [%1] where the next uncovered stanza [%2] was due")
                                                .arg(QString::fromUtf8(d.left(160)), QString::fromUtf8(expectedResend.first().left(160))));
                                expectedResend.clear();
                            } else {
                                expectedResend.removeFirst();
                                w.probe("stanza_resent");
                            }
                            return;
                        }
                        // a covered stanza must never be written again
                        if (smOn) {
                            OutSt o { d, ++outSeq, nullptr };
                            for (auto it = byMarker.begin(); it != byMarker.end(); ++it) {
                                if (d.contains(it.key().toUtf8()) && !it.value()->numbered && it.value()->fired == 0) {
                                    o.task = it.value();
                                    it.value()->numbered = true;
                                    break;
                                }
                            }
                            unacked.append(o);
                        }
                        return;
                    }
                    QByteArray hAttr;
                    const char *what = nullptr;
                    if (d.startsWith("<a ") && d.contains(NS_SM)) {
                        hAttr = attrOf(d, "h");
                        what = "ack";
                    } else if (d.startsWith("<resume ") && d.contains(NS_SM)) {
                        hAttr = attrOf(d, "h");
                        what = "resume";
                    } else if (d.startsWith("<authenticate") && d.contains("<resume ")) {
                        int i = d.indexOf("<resume ");
                        hAttr = attrOf(d.mid(i), "h");
                        what = "sasl2_inline_resume";
                    }
                    if (what && QByteArray(what).contains("resume")) {
                        int i = d.indexOf("<resume ");
                        lastResumePrevid = attrOf(d.mid(i), "previd");
                        if (deadSessions.contains(lastResumePrevid)) {
                            // the server already said it does not know that session: the h for it is moot (see DESIGN.md section 7)
                            w.probe("resume_of_dead_session_retried");
                            what = nullptr;
                        }
                    }
                    if (what) {
                        w.probe("client_reported_h");
                        if (hAttr.toUInt() != inCount) {
                            w.violation(QStringLiteral("h_wrong"), QStringLiteral("C09:reported_h_differs_from_stanzas_received:") + QLatin1String(what),
                                        QStringLiteral("client wrote h=%1 in <%2/> but %3 message/presence/iq stanzas were delivered to it on this SM session")
                                            .arg(QString::fromLatin1(hAttr)).arg(QLatin1String(what)).arg(inCount));
                        }
                    }
                };
                l->onDeliver = [&](int dir, const QByteArray &bytes) {
                    if (dir != 1) {
                        return;
                    }
                    simxml::Framer f;
                    f.feed(bytes);
                    for (const auto &it : f.take()) {
                        if (it.kind != simxml::Item::Element) {
                            continue;
                        }
                        const QByteArray &e = it.text;
                        if (isStanzaText(e)) {
                            // stanzas count for the SM session only while that session is active on this connection
                            if (smOn) {
                                ++inCount;
                            }
                            continue;
                        }
                        int ie = e.indexOf("<enabled ");
                        int ir = e.indexOf("<resumed ");
                        if (ie >= 0 && e.contains(NS_SM)) {
                            // fresh SM session: counters restart, everything still unacknowledged is due again, renumbered from 1
                            smOn = true;
                            inCount = 0;
                            expectedResend.clear();
                            outSeq = 0;
                            for (auto &o : unacked) {
                                expectedResend.append(o.raw);
                                o.seq = ++outSeq;
                            }
                            if (lossWithUnacked) {
                                smAfterLoss = true;
                            }
                            w.probe("sm_enabled_fresh");
                            if (!unacked.isEmpty()) {
                                w.probe("fresh_enable_with_unacked");
                            }
                        } else if (ir >= 0 && e.contains(NS_SM)) {
                            unsigned h = attrOf(e.mid(ir), "h").toUInt();
                            cover(h);
                            lastResumePrevid.clear();
                            smOn = true;
                            expectedResend.clear();
                            for (auto &o : unacked) {
                                expectedResend.append(o.raw);
                            }
                            if (lossWithUnacked) {
                                smAfterLoss = true;
                            }
                            w.probe("sm_resumed");
                            if (!unacked.isEmpty()) {
                                w.probe("resumed_with_unacked");
                            }
                        } else if (e.contains("<failed ") && e.contains(NS_SM) && !lastResumePrevid.isEmpty()) {
                            deadSessions.insert(lastResumePrevid);
                            lastResumePrevid.clear();
                        } else if (e.startsWith("<a ") && e.contains(NS_SM)) {
                            if (smOn) {
                                cover(attrOf(e, "h").toUInt());
                            }
                        }
                    }
                };
            };

            w.createClient(plan.knob(QStringLiteral("ext")) ? QXmppClient::BasicExtensions : QXmppClient::NoExtensions);
            QObject::connect(w.client, &QXmppClient::disconnected, &ctx, [&] {
                smOn = false;
                expectedResend.clear();
                if (!unacked.isEmpty()) {
                    lossWithUnacked = true;
                    w.probe("loss_with_unacked_stanzas");
                }
            });

            auto checkAfterStep = [&] {
                if (!expectedResend.isEmpty() && w.client->simSocket()->state() == QAbstractSocket::ConnectedState) {
                    w.violation(QStringLiteral("resend_missing"), QStringLiteral("C09:resend:uncovered_stanza_not_resent"),
                                QStringLiteral("%1 uncovered stanza(s) were not transmitted again after SM was (re)enabled; first: %2")
                                    .arg(expectedResend.size()).arg(QString::fromUtf8(expectedResend.first().left(160))));
                    expectedResend.clear();
                }
                for (const auto &t : sends) {
                    if (t->fired > 1) {
                        w.violation(QStringLiteral("report_twice"), QStringLiteral("C09:send_report_fired_twice"), t->marker);
                    }
                    if (t->covered && t->fired == 0) {
                        w.violation(QStringLiteral("ack_not_reported"), QStringLiteral("C09:covered_stanza_not_reported_acknowledged"),
                                    QStringLiteral("an h covering %1 reached the client but its delivery report did not fire").arg(t->marker));
                    }
                }
            };

            for (const auto &op : plan.ops) {
                Prng r(mix64(plan.seed, op.salt));
                const QString &k = op.kind;
                ServerConn *conn = w.server->current();
                if (k == QLatin1String("send")) {
                    if (w.client->isConnected() || w.client->state() == QXmppClient::DisconnectedState) {
                        auto t = std::make_shared<TrackedSend>();
                        t->marker = QStringLiteral("mk%1x").arg(++msgNo);
                        sends.append(t);
                        byMarker[t->marker] = t;
                        const bool connected = w.client->isConnected();
                        const bool expectPending = connected && smOn;
                        auto cont = [t, &w, this](QXmpp::SendResult &&r) {
                            t->fired++;
                            t->step = w.stepNo;
                            if (auto *s = std::get_if<QXmpp::SendSuccess>(&r)) {
                                t->ok = true;
                                t->acked = s->acknowledged;
                                if (t->acked && !t->covered) {
                                    w.violation(QStringLiteral("acked_without_ack"), QStringLiteral("C09:reported_acknowledged_before_h_covered_it"),
                                                QStringLiteral("delivery report of %1 says acknowledged but no h covering it had reached the client").arg(t->marker));
                                }
                            }
                        };
                        tr.log(QStringLiteral("app: send %1 kind %2").arg(t->marker).arg(op.arg(0)));
                        switch (op.arg(0)) {
                        case 0: {
                            QXmppMessage m({}, QStringLiteral("bob@example.org"), t->marker);
                            w.client->send(std::move(m)).then(&ctx, cont);
                            break;
                        }
                        case 1: {
                            QXmppPresence pr;
                            pr.setStatusText(t->marker);
                            w.client->send(std::move(pr)).then(&ctx, cont);
                            break;
                        }
                        default: {
                            QXmppIq iq(QXmppIq::Set);
                            iq.setTo(QStringLiteral("bob@example.org/") + t->marker);
                            w.client->send(std::move(iq)).then(&ctx, cont);
                            break;
                        }
                        }
                        settle();
                        if (expectPending && t->fired != 0 && t->acked) {
                            // covered by the violation in the continuation
                        }
                        if (!expectPending && t->fired != 1) {
                            w.violation(QStringLiteral("unnumbered_not_reported"), QStringLiteral("C09:send_without_sm_not_reported_at_once"),
                                        QStringLiteral("%1 was sent while SM was off (connected=%2) but its report did not fire").arg(t->marker).arg(connected));
                        }
                        if (!expectPending && t->fired == 1 && t->acked) {
                            w.violation(QStringLiteral("acked_without_sm"), QStringLiteral("C09:acknowledged_reported_without_sm"), t->marker);
                        }
                    }
                } else if (k == QLatin1String("nonza")) {
                    if (w.client->isConnected()) {
                        struct SimNonza : QXmppNonza {
                            int n = 0;
                            void parse(const QDomElement &) override { }
                            void toXml(QXmlStreamWriter *w) const override
                            {
                                w->writeStartElement(QStringLiteral("note"));
                                w->writeDefaultNamespace(QStringLiteral("urn:sim:nonza"));
                                w->writeAttribute(QStringLiteral("n"), QString::number(n));
                                w->writeEndElement();
                            }
                        } nz;
                        nz.n = ++nonzaNo;
                        tr.log(QStringLiteral("app: sendPacket(nonza %1)").arg(nz.n));
                        w.fault("application_nonza_sent");
                        w.client->sendPacket(nz);
                        settle();
                    }
                } else if (k == QLatin1String("csi")) {
                    if (w.client->isConnected()) {
                        tr.log(QStringLiteral("app: setActive(%1)").arg(op.arg(0)));
                        w.client->setActive(op.arg(0));
                        settle();
                    }
                } else if (k == QLatin1String("ack")) {
                    if (conn && conn->sm && conn->sessionReady) {
                        int h = (int)conn->sm->hIn;
                        const int d = (int)op.arg(1);
                        switch (op.arg(0)) {
                        case 1:
                            h = std::max(0, h - d);
                            w.fault("ack_stale");
                            break;
                        case 2:
                            h = h + d;
                            adversarial = true;
                            w.fault("ack_beyond_received");
                            break;
                        case 3:
                            h = std::max(0, lastAckSent - d);
                            w.fault("ack_decreasing");
                            break;
                        default:
                            w.fault("ack_exact");
                        }
                        if (h > (int)conn->sm->hIn) {
                            // whatever the op was called, this acknowledges more than the server has received on this
                            // session (e.g. "decreasing" relative to an ack of an earlier session): not an honest ack
                            adversarial = true;
                        }
                        lastAckSent = h;
                        conn->send(QByteArray("<a xmlns='urn:xmpp:sm:3' h='") + QByteArray::number(h) + "'/>");
                    }
                } else if (k == QLatin1String("ackreq")) {
                    if (conn && conn->sessionReady) {
                        conn->send("<r xmlns='urn:xmpp:sm:3'/>");
                    }
                } else if (k == QLatin1String("srvst")) {
                    if (conn && conn->sessionReady) {
                        const QByteArray to = conn->fullJid.toUtf8();
                        const QByteArray n = QByteArray::number((int)r.uniform(100000));
                        switch (op.arg(0)) {
                        case 0:
                            conn->sendStanza("<message from='carol@example.org/x' to='" + to + "' type='chat'><body>srv" + n + "</body></message>");
                            break;
                        case 1:
                            conn->sendStanza("<presence from='carol@example.org/x' to='" + to + "'><status>s" + n + "</status></presence>");
                            break;
                        case 2:
                            conn->sendStanza("<iq from='carol@example.org/x' to='" + to + "' type='get' id='sq" + n + "'><query xmlns='urn:example:unknown'/></iq>");
                            break;
                        default:
                            conn->sendStanza("<iq from='carol@example.org/x' to='" + to + "' type='result' id='nobody" + n + "'/>");
                        }
                    }
                } else if (k == QLatin1String("dl")) {
                    w.deliver((int)op.arg(0));   // whole segments only: parsed == delivered (read-boundary independence is C03's subject)
                } else if (k == QLatin1String("lose")) {
                    if (w.client->isConnected()) {
                        switch (op.arg(0)) {
                        case 0:
                            w.serverClose();
                            w.pump(nullptr);
                            break;
                        case 1:
                            w.cutLink();
                            break;
                        case 2: {
                            w.stallLink();
                            int guard = 0;
                            while (w.client->state() != QXmppClient::DisconnectedState && guard++ < 12 && w.fireNextTimer(400000)) {
                            }
                            break;
                        }
                        default:
                            // FIN without a stream end: the session stays resumable
                            if (conn) {
                                w.fault("peer_fin_without_stream_end");
                                conn->closeStream(false);
                                w.pump(nullptr);
                            }
                        }
                    }
                } else if (k == QLatin1String("reconn")) {
                    if (w.client->state() == QXmppClient::DisconnectedState && !w.connectPending) {
                        auto &sp = w.server->profile;
                        sp.quirks.remove(QStringLiteral("resume"));
                        sp.quirks.remove(QStringLiteral("enable"));
                        sp.quirks.remove(QStringLiteral("resumed_h"));
                        sp.sm = (int)plan.knob(QStringLiteral("sm"));
                        switch (op.arg(0)) {
                        case 0:
                            break;   // honest: resume if possible
                        case 1:
                            sp.quirks[QStringLiteral("resume")] = QStringLiteral("refuse");
                            w.fault("resume_refused_new_sm_session");
                            break;
                        case 2:
                            // resumption fails and the new session does not get stream management either (<enable/> is refused)
                            sp.quirks[QStringLiteral("resume")] = QStringLiteral("refuse");
                            sp.quirks[QStringLiteral("enable")] = QStringLiteral("refuse");
                            w.fault("new_session_without_sm");
                            break;
                        case 3:
                            sp.quirks[QStringLiteral("resumed_h")] = QStringLiteral("zero");
                            adversarial = true;   // the lie makes the client resend, so the server's own later counts drift
                            w.fault("resumed_h_zero");
                            break;
                        case 4:
                            sp.quirks[QStringLiteral("resumed_h")] = QStringLiteral("beyond");
                            adversarial = true;
                            w.fault("resumed_h_beyond");
                            break;
                        }
                        w.connectClient();
                        w.resolveConnect(true);
                    }
                } else {
                    w.applyCommon(op);
                }
                settle();
                checkAfterStep();
                w.afterStep();
            }
            // quiesce and final checks
            w.pump(nullptr);
            checkAfterStep();
            w.client->disconnectFromServer();
            w.pump(nullptr);
            delete w.client;
            w.client = nullptr;
            settle();
            for (const auto &t : sends) {
                if (t->fired != 1) {
                    w.violation(QStringLiteral("report_not_exactly_once"), QStringLiteral("C09:send_report_fired_%1_times_by_end").arg(t->fired), t->marker);
                }
                if (t->acked && !adversarial) {
                    bool found = false;
                    const QByteArray mk = t->marker.toUtf8();
                    for (const auto &rcv : w.server->received) {
                        if (rcv.isStanza && rcv.raw.contains(mk)) {
                            found = true;
                            break;
                        }
                    }
                    if (!found) {
                        w.violation(QStringLiteral("acked_but_never_received"), QStringLiteral("C09:acknowledged_stanza_never_reached_server"),
                                    QStringLiteral("%1 was reported acknowledged but no connection of the server ever received it").arg(t->marker));
                    }
                }
            }
            res.nontrivial = lossWithUnacked && smAfterLoss;
        }
        res.traceHash = tr.hash.value();
        res.trace = tr.lines;
        return res;
    }

    bool removable(const Plan &plan, int i) override { return i >= 2 || plan.ops[i].kind != QLatin1String("connect"); }
    QVector<Op> simplerOps(const Op &op) override
    {
        QVector<Op> out;
        if (op.kind == QLatin1String("send") && op.arg(0) != 0) {
            out << mkop(QStringLiteral("send"), { 0 }, {}, op.salt);
        }
        if (op.kind == QLatin1String("ack") && op.arg(0) != 0) {
            out << mkop(QStringLiteral("ack"), { 0, 1 }, {}, op.salt);
        }
        if (op.kind == QLatin1String("lose") && op.arg(0) != 1) {
            out << mkop(QStringLiteral("lose"), { 1 }, {}, op.salt);
        }
        if (op.kind == QLatin1String("reconn") && op.arg(0) != 0) {
            out << mkop(QStringLiteral("reconn"), { 0 }, {}, op.salt);
        }
        return out;
    }
    QVector<Plan> simplerKnobs(const Plan &p) override
    {
        QVector<Plan> out;
        if (p.knob(QStringLiteral("ext"))) {
            Plan q = p;
            q.knobs[QStringLiteral("ext")] = 0;
            out << q;
        }
        if (p.knob(QStringLiteral("bind2"))) {
            Plan q = p;
            q.knobs.remove(QStringLiteral("bind2"));
            q.sknobs.remove(QStringLiteral("sasl2"));
            q.sknobs.remove(QStringLiteral("bind2f"));
            q.sknobs[QStringLiteral("sasl1")] = QStringLiteral("SCRAM-SHA-1");
            out << q;
        }
        return out;
    }
};

static EngineRegistrar reg(new C09Engine);

}  // namespace
