// C04 — with TLS required, no credential or stanza is sent before the link is encrypted.
#include "session_world.h"

#include "peers/crypto.h"

using namespace sim;

namespace {

// the server-side alphabet of the quantifier, as literal elements the scheduler can send at any moment
static QByteArray alphabet(int k, const QString &lastClientIqId, const QString &domain, Prng &r)
{
    const QByteArray id = simxml::esc(lastClientIqId.isEmpty() ? QStringLiteral("x1") : lastClientIqId).toUtf8();
    const QByteArray tlsReq = "<starttls xmlns='urn:ietf:params:xml:ns:xmpp-tls'><required/></starttls>";
    const QByteArray tlsOpt = "<starttls xmlns='urn:ietf:params:xml:ns:xmpp-tls'/>";
    const QByteArray mechs = "<mechanisms xmlns='urn:ietf:params:xml:ns:xmpp-sasl'><mechanism>SCRAM-SHA-1</mechanism><mechanism>PLAIN</mechanism><mechanism>DIGEST-MD5</mechanism><mechanism>ANONYMOUS</mechanism></mechanisms>";
    const QByteArray sasl2 = "<authentication xmlns='urn:xmpp:sasl:2'><mechanism>SCRAM-SHA-1</mechanism><mechanism>PLAIN</mechanism><inline><bind xmlns='urn:xmpp:bind:0'><inline><feature var='urn:xmpp:sm:3'/></inline></bind><fast xmlns='urn:xmpp:fast:0'><mechanism>HT-SHA-256-NONE</mechanism></fast><sm xmlns='urn:xmpp:sm:3'/></inline></authentication>";
    const QByteArray iqauth = "<auth xmlns='http://jabber.org/features/iq-auth'/>";
    const QByteArray bind = "<bind xmlns='urn:ietf:params:xml:ns:xmpp-bind'/><session xmlns='urn:ietf:params:xml:ns:xmpp-session'/><sm xmlns='urn:xmpp:sm:3'/>";
    auto feat = [](const QByteArray &inner) { return "<stream:features>" + inner + "</stream:features>"; };
    switch (k) {
    case 0: return feat(tlsReq);
    case 1: return feat(tlsOpt + mechs);
    case 2: return feat(mechs);
    case 3: return feat(sasl2);
    case 4: return feat(iqauth);
    case 5: return feat(bind);
    case 6: return feat("");
    case 7: return "<proceed xmlns='urn:ietf:params:xml:ns:xmpp-tls'/>";
    case 8: return "<failure xmlns='urn:ietf:params:xml:ns:xmpp-tls'/>";
    case 9: return "<success xmlns='urn:ietf:params:xml:ns:xmpp-sasl'/>";
    case 10: return "<success xmlns='urn:xmpp:sasl:2'><authorization-identifier>alice@" + domain.toUtf8() + "/r1</authorization-identifier><bound xmlns='urn:xmpp:bind:0'/></success>";
    case 11: return "<challenge xmlns='urn:ietf:params:xml:ns:xmpp-sasl'>" + QByteArray("realm=\"x\",nonce=\"abc\",qop=\"auth\",charset=utf-8,algorithm=md5-sess").toBase64() + "</challenge>";
    case 12: return "<iq type='result' id='" + id + "'><query xmlns='jabber:iq:auth'><username/>" + (r.chance(0.7) ? "<password/>" : "") + (r.chance(0.7) ? "<digest/>" : "") + "<resource/></query></iq>";
    case 13: return "<iq type='result' id='" + id + "'/>";
    case 14: return "<stream:error><see-other-host xmlns='urn:ietf:params:xml:ns:xmpp-streams'>alt.sim:5299</see-other-host></stream:error>";
    case 15: return "<?xml version='1.0'?><stream:stream xmlns='jabber:client' xmlns:stream='http://etherx.jabber.org/streams' from='" + domain.toUtf8() + "' id='legacy" + QByteArray::number((int)r.uniform(1000)) + "'>";
    case 16: return "<?xml version='1.0'?><stream:stream xmlns='jabber:client' xmlns:stream='http://etherx.jabber.org/streams' from='" + domain.toUtf8() + "' id='s" + QByteArray::number((int)r.uniform(1000)) + "' version='1.0'>";
    case 17: return "<enabled xmlns='urn:xmpp:sm:3' id='smx' resume='true'/>";
    case 18: return "<resumed xmlns='urn:xmpp:sm:3' h='0' previd='smx'/>";
    case 19: return "<iq type='result' id='" + id + "'><bind xmlns='urn:ietf:params:xml:ns:xmpp-bind'><jid>alice@" + domain.toUtf8() + "/r1</jid></bind></iq>";
    case 20: return feat(tlsOpt + sasl2 + iqauth);
    case 21: return feat(mechs + iqauth + bind);
    default: return feat(tlsOpt);
    }
}
constexpr int kAlphabet = 23;

class C04Engine : public Engine
{
public:
    QString property() const override { return QStringLiteral("C04"); }
    QString describe() const override
    {
        return QStringLiteral("real: QXmppClient/QXmppOutgoingClient negotiation (STARTTLS decision, SASL, SASL2, XEP-0078, bind, SM managers), XmppSocket ; "
                              "stub: transport with a wire eavesdropper that knows for every byte whether the link was encrypted, TLS handshake outcome, ScriptedServer (odd profiles, muted/scripted mode, unsolicited elements), simulated clock");
    }

    Plan generate(quint64 seed, const QString &tier) override
    {
        Plan p;
        Prng r(derive(seed, "c04"));
        auto &k = p.knobs;
        auto &s = p.sknobs;
        // client configuration (TLSRequired is the subject; the other modes are controls on which the oracle is vacuous)
        const int mode = r.weighted({ 8, 7, 80, 5 });
        k[QStringLiteral("tlsMode")] = mode;
        k[QStringLiteral("useSasl")] = r.chance(0.85);
        k[QStringLiteral("useSasl2")] = r.chance(0.7);
        k[QStringLiteral("useLegacy")] = r.chance(0.5);
        k[QStringLiteral("legacyMech")] = r.uniform(2);
        k[QStringLiteral("autoReconnect")] = 0;
        if (r.chance(0.3)) {
            s[QStringLiteral("disabledMechs")] = QString();   // PLAIN allowed
        }
        if (r.chance(0.2)) {
            s[QStringLiteral("prefMech")] = r.chance(0.5) ? QStringLiteral("PLAIN") : QStringLiteral("DIGEST-MD5");
        }
        if (r.chance(0.3)) {
            k[QStringLiteral("userAgent")] = 1;
            if (r.chance(0.6)) {
                s[QStringLiteral("fastToken")] = QStringLiteral("secret-fast-token-777");
            }
        }
        // server profile: possibly odd
        k[QStringLiteral("hdrVersion")] = r.chance(0.8);
        k[QStringLiteral("hdrId")] = r.chance(0.9);
        k[QStringLiteral("tls")] = r.weighted({ 30, 25, 45 });
        k[QStringLiteral("tlsAnswer")] = r.chance(0.8) ? 0 : 1;
        k[QStringLiteral("tlsHandshake")] = r.weighted({ 70, 20, 10 });
        s[QStringLiteral("sasl1")] = r.chance(0.8) ? QStringLiteral("SCRAM-SHA-1,PLAIN,DIGEST-MD5") : QString();
        if (r.chance(0.4)) {
            s[QStringLiteral("sasl2")] = QStringLiteral("SCRAM-SHA-1,PLAIN");
            k[QStringLiteral("bind2")] = r.chance(0.7);
            if (r.chance(0.5)) {
                s[QStringLiteral("fast")] = QStringLiteral("HT-SHA-256-NONE");
            }
        }
        k[QStringLiteral("legacy")] = r.chance(0.4);
        k[QStringLiteral("sm")] = r.uniform(3);
        k[QStringLiteral("scramIter")] = 1;
        if (r.chance(0.25)) {
            s[QStringLiteral("q.features")] = QStringLiteral("auth_before_tls");   // offers authentication next to a required starttls
        }
        k[QStringLiteral("mute")] = r.chance(0.25);   // fully scripted server: only the ops below speak
        // no explicit host: SRV lookup (simulated, no records) and the built-in list "direct TLS 5223, then TCP 5222";
        // a socket error before the session makes the client fail over to the next address
        const bool dns = r.chance(0.2);
        if (dns) {
            k[QStringLiteral("dnsLookup")] = 1;
            k[QStringLiteral("dnsNotFound")] = r.chance(0.5);
        }
        p.ops.append(mkop(QStringLiteral("connect")));
        p.ops.append(mkop(QStringLiteral("connok")));
        if (dns && r.chance(0.6)) {
            // biased scenario: the first address gets as far as an authentication exchange in flight (or k deliveries),
            // the link breaks, and the next address is a plain TCP endpoint that only says what the ops make it say
            p.ops.append(mkop(QStringLiteral("until"), { r.chance(0.7) ? 4 : 3, r.range(0, 6) }, {}, (quint32)r.next()));
            p.ops.append(mkop(QStringLiteral("prof"), {}, { QStringLiteral("mute"), QStringLiteral("1") }, (quint32)r.next()));
            p.ops.append(mkop(QStringLiteral("cut"), {}, {}, (quint32)r.next()));
            p.ops.append(mkop(QStringLiteral("connok"), {}, {}, (quint32)r.next()));
            p.ops.append(mkop(QStringLiteral("dl"), { 0 }, {}, (quint32)r.next()));
            const int nInj = (int)r.range(1, 3);
            for (int i = 0; i < nInj; ++i) {
                static const int cont[] = { 11, 12, 9, 10, 13, 19, 2, 4 };
                p.ops.append(mkop(QStringLiteral("inj"), { cont[r.uniform(8)] }, {}, (quint32)r.next()));
                p.ops.append(mkop(QStringLiteral("pump"), {}, {}, (quint32)r.next()));
            }
        }
        if (r.chance(0.3)) {
            // biased scenario: let the first connection get far (k deliveries, or all the way), then the server redirects
            // (or the link drops) and the next connection meets a server that is configured differently
            // milestone: 0 link encrypted, 1 authenticated, 2 session established, 3 after k further deliveries
            p.ops.append(mkop(QStringLiteral("until"), { r.weighted({ 20, 40, 25, 15 }), r.range(0, 6) }, {}, (quint32)r.next()));
            static const char *keys[] = { "tls", "hdrVersion", "tls", "q.features", "mute" };
            const int ki = (int)r.uniform(5);
            const QString val = ki == 3 ? QStringLiteral("auth_before_tls") : (ki == 4 ? QStringLiteral("0") : QStringLiteral("0"));
            p.ops.append(mkop(QStringLiteral("prof"), {}, { QString::fromLatin1(keys[ki]), val }, (quint32)r.next()));
            switch (r.uniform(3)) {
            case 0:
                p.ops.append(mkop(QStringLiteral("inj"), { 14 }, {}, (quint32)r.next()));
                break;
            case 1:
                p.ops.append(mkop(QStringLiteral("cut"), {}, {}, (quint32)r.next()));
                p.ops.append(mkop(QStringLiteral("connect"), {}, {}, (quint32)r.next()));
                p.ops.append(mkop(QStringLiteral("connok"), {}, {}, (quint32)r.next()));
                break;
            default:
                p.ops.append(mkop(QStringLiteral("sclose"), {}, {}, (quint32)r.next()));
                p.ops.append(mkop(QStringLiteral("pump"), {}, {}, (quint32)r.next()));
                p.ops.append(mkop(QStringLiteral("connect"), {}, {}, (quint32)r.next()));
                p.ops.append(mkop(QStringLiteral("connok"), {}, {}, (quint32)r.next()));
            }
            p.ops.append(mkop(QStringLiteral("pump"), {}, {}, (quint32)r.next()));
        }
        {
            // biased scenario (own stream, so the other draws of a seed stay what they were): a client object that already had a
            // session (keep-alive timers armed once) connects again and meets a server that offers STARTTLS and then says
            // nothing more, for longer than the keep-alive interval: whatever timer fires must not write a stanza in clear
            Prng ri(derive(seed, "c04idle"));
            if (ri.chance(0.1)) {
                p.ops.append(mkop(QStringLiteral("until"), { 2, 0 }, {}, (quint32)ri.next()));
                p.ops.append(mkop(QStringLiteral("prof"), {}, { QStringLiteral("mute"), QStringLiteral("1") }, (quint32)ri.next()));
                p.ops.append(mkop(ri.chance(0.5) ? QStringLiteral("cut") : QStringLiteral("sclose"), {}, {}, (quint32)ri.next()));
                p.ops.append(mkop(QStringLiteral("pump"), {}, {}, (quint32)ri.next()));
                p.ops.append(mkop(QStringLiteral("connect"), {}, {}, (quint32)ri.next()));
                p.ops.append(mkop(QStringLiteral("connok"), {}, {}, (quint32)ri.next()));
                p.ops.append(mkop(QStringLiteral("pump"), {}, {}, (quint32)ri.next()));
                p.ops.append(mkop(QStringLiteral("inj"), { 16 }, {}, (quint32)ri.next()));
                p.ops.append(mkop(QStringLiteral("inj"), { (qint64)ri.pick(QVector<int> { 0, 1, 20 }) }, {}, (quint32)ri.next()));
                p.ops.append(mkop(QStringLiteral("pump"), {}, {}, (quint32)ri.next()));
                const int nt = (int)ri.range(1, 4);
                for (int i = 0; i < nt; ++i) {
                    p.ops.append(mkop(QStringLiteral("timer"), { 120000 }, {}, (quint32)ri.next()));
                    p.ops.append(mkop(QStringLiteral("pump"), {}, {}, (quint32)ri.next()));
                }
            }
        }
        const int n = (int)r.range(2, tier == QLatin1String("thorough") ? 20 : 12);
        for (int i = 0; i < n; ++i) {
            quint32 salt = (quint32)r.next();
            if (r.chance(0.06)) {
                p.ops.append(mkop(QStringLiteral("timer"), { 120000 }, {}, salt));
                continue;
            }
            switch (r.weighted({ 30, 30, 12, 5, 5, 4, 6, 8 })) {
            case 0:
                p.ops.append(mkop(QStringLiteral("dl"), { (qint64)r.uniform(2) }, {}, salt));
                break;
            case 1:
                p.ops.append(mkop(QStringLiteral("inj"), { (qint64)r.uniform(kAlphabet) }, {}, salt));
                break;
            case 2:
                p.ops.append(mkop(QStringLiteral("pump"), {}, {}, salt));
                break;
            case 3:
                p.ops.append(mkop(QStringLiteral("tlsok"), {}, {}, salt));
                break;
            case 4:
                p.ops.append(mkop(QStringLiteral("tlsfail"), {}, {}, salt));
                break;
            case 5:
                p.ops.append(mkop(r.chance(0.5) ? QStringLiteral("cut") : QStringLiteral("sclose"), {}, {}, salt));
                break;
            case 6:
                // the next connection (after a redirect or a reconnect) meets another server configuration
                p.ops.append(mkop(QStringLiteral("prof"), {}, { r.chance(0.5) ? QStringLiteral("tls") : QStringLiteral("hdrVersion"), QString::number(r.uniform(2) * (r.chance(0.5) ? 1 : 2)) }, salt));
                break;
            case 7:
                p.ops.append(mkop(QStringLiteral("connect"), {}, {}, salt));
                p.ops.append(mkop(QStringLiteral("connok"), {}, {}, (quint32)r.next()));
                break;
            }
        }
        p.ops.append(mkop(QStringLiteral("pump")));
        return p;
    }

    RunResult execute(const Plan &plan, bool verbose) override
    {
        RunResult res;
        Trace tr(verbose);
        {
            SessionWorld w(plan, tr, res);
            const bool required = plan.knob(QStringLiteral("tlsMode")) == QXmppConfiguration::TLSRequired;
            const QByteArray password = w.config.password().toUtf8();
            const QByteArray user = w.config.user().toUtf8();
            const QByteArray token = plan.sknob(QStringLiteral("fastToken")).toUtf8();
            QString lastClientIqId;
            int clientElementsAfterHeader = 0;
            int authElementsWritten = 0;   // on the current connection
            int serverElementsBeforeTls = 0;
            QMap<SimLink *, bool> negativeOutcome;     // link -> an explicit "no TLS possible" outcome was delivered
            QMap<SimLink *, int> connectedOn;
            QSet<SimLink *> doneLinks;   // connections on which a session has been reported

            auto classify = [&](const QByteArray &d) -> QString {
                // returns "" if the bytes are allowed on an unencrypted link, else a signature fragment
                simxml::Framer f;
                f.feed(d);
                const auto items = f.take();
                for (const auto &it : items) {
                    if (it.kind == simxml::Item::Header || it.kind == simxml::Item::Close || it.kind == simxml::Item::Whitespace) {
                        continue;
                    }
                    QDomDocument doc;
                    QDomElement el = simxml::parse(it.text, doc);
                    const QString tag = el.tagName(), ns = el.namespaceURI();
                    if (tag == QLatin1String("starttls") && ns == QLatin1String("urn:ietf:params:xml:ns:xmpp-tls")) {
                        continue;
                    }
                    QString frag = tag;
                    if (tag == QLatin1String("iq")) {
                        frag += QLatin1Char(':') + el.firstChildElement().namespaceURI();
                    } else if (ns != QLatin1String("jabber:client")) {
                        frag += QLatin1Char(':') + ns;
                    }
                    return frag;
                }
                if (f.pending() > 0) {
                    return QStringLiteral("unframed_bytes");
                }
                return {};
            };

            w.onNewLink = [&](SimLink *l) {
                authElementsWritten = 0;
                l->onWrite = [&, l](int from, const QByteArray &d) {
                    if (from == 1) {
                        if (!l->encrypted) {
                            ++serverElementsBeforeTls;
                        }
                        return;
                    }
                    if (d.startsWith("<iq")) {
                        QDomDocument doc;
                        lastClientIqId = simxml::parse(d, doc).attribute(QStringLiteral("id"));
                    }
                    if (!d.contains("<stream:stream")) {
                        ++clientElementsAfterHeader;
                    }
                    if (d.startsWith("<auth ") || d.startsWith("<authenticate ") || d.contains("jabber:iq:auth")) {
                        ++authElementsWritten;
                    }
                    if (!required || l->encrypted) {
                        return;
                    }
                    const QString frag = classify(d);
                    if (!frag.isEmpty()) {
                        w.violation(QStringLiteral("cleartext_before_tls"), QStringLiteral("C04:sent_unencrypted_with_tls_required:") + frag,
                                    QStringLiteral("TLS is required but the client wrote this on the unencrypted connection %1: %2").arg(w.linkIndex()).arg(QString::fromUtf8(d.left(300))));
                    }
                    // belt and braces: secrets in any form
                    const QByteArray plain = QByteArray(1, '\0') + user + QByteArray(1, '\0') + password;
                    if (d.contains(password) || d.contains(plain.toBase64()) || (!token.isEmpty() && d.contains(token))) {
                        w.violation(QStringLiteral("secret_in_cleartext"), QStringLiteral("C04:secret_on_unencrypted_link"),
                                    QStringLiteral("a configured secret occurs in bytes written before encryption: %1").arg(QString::fromUtf8(d.left(200))));
                    }
                };
                l->onDeliver = [&, l](int dir, const QByteArray &d) {
                    if (dir != 1 || l->encrypted || !required) {
                        return;
                    }
                    // explicit negative outcomes
                    if (d.contains("<failure") && d.contains("xmpp-tls")) {
                        negativeOutcome[l] = true;
                    }
                    if (d.contains("<stream:features") && !d.contains("<starttls")) {
                        negativeOutcome[l] = true;
                    }
                };
            };
            w.createClient(QXmppClient::BasicExtensions);
            QObject ctx;
            QObject::connect(w.client, &QXmppClient::connected, &ctx, [&] {
                SimLink *l = w.link();
                connectedOn[l]++;
                // the verdict for this connection is given now; the rest of the server script is not delivered any more
                // (what a hostile server can do to an established session is outside C04, see DESIGN.md section 7)
                if (l) {
                    l->q[1].clear();
                }
                w.tlsPending = false;
                doneLinks.insert(l);
                if (required && l && !l->encrypted) {
                    w.violation(QStringLiteral("session_without_tls"), QStringLiteral("C04:session_reported_on_unencrypted_link"),
                                QStringLiteral("TLS is required but connected() fired on the unencrypted connection %1").arg(w.linkIndex()));
                }
            });

            for (const auto &op : plan.ops) {
                Prng r(mix64(plan.seed, op.salt));
                const QString &k = op.kind;
                if (doneLinks.contains(w.link()) && !w.connectPending) {
                    // the verdict for this connection has been given; only steps that end it are still taken
                    // (what a hostile server can do to an established session is outside C04, see DESIGN.md section 7)
                    const bool ends = (k == QLatin1String("inj") && op.arg(0) == 14) || k == QLatin1String("cut") || k == QLatin1String("sclose") || k == QLatin1String("connect") || k == QLatin1String("prof") || k == QLatin1String("connok");
                    if (!ends) {
                        w.probe("step_skipped_after_session");
                        w.afterStep();
                        continue;
                    }
                    if (k == QLatin1String("inj")) {
                        // deliver the redirect right away so that nothing else of the script reaches the established session
                        if (auto *c = w.server->current()) {
                            w.fault("redirect_after_session");
                            c->send(alphabet(14, lastClientIqId, w.profile.domain, r));
                            c->closeStream(true);
                            w.pump(nullptr);
                        }
                        w.afterStep();
                        continue;
                    }
                }
                if (k == QLatin1String("inj") && w.link() && !w.link()->encrypted && w.client->simSocket()->directTls) {
                    // direct TLS: nothing a server writes before the handshake has completed is XMPP (a real TLS layer
                    // would take it for handshake records and fail); the script waits
                    w.probe("script_waits_for_direct_tls_handshake");
                } else if (k == QLatin1String("inj")) {
                    if (auto *c = w.server->current()) {
                        if (c->gotHeader || w.profile.mute) {
                            const int k = (int)op.arg(0);
                            if (c->bytesWritten == 0 && k != 15 && k != 16) {
                                // elements are only meaningful inside a stream: a scripted server opens one first
                                c->send(alphabet(r.chance(0.8) ? 16 : 15, lastClientIqId, w.profile.domain, r));
                            }
                            const QByteArray el = alphabet(k, lastClientIqId, w.profile.domain, r);
                            tr.log(QStringLiteral("srv(script): ") + QString::fromUtf8(el.left(120)));
                            w.fault("unsolicited_server_element");
                            c->send(el);
                        }
                    }
                } else if (k == QLatin1String("until")) {
                    // deliver whatever is pending until the client has reached the milestone (or nothing moves any more)
                    const int milestone = (int)op.arg(0);
                    int extra = (int)op.arg(1);
                    for (int guard = 0; guard < 80; ++guard) {
                        const bool reached = (milestone == 0 && w.link() && w.link()->encrypted) || (milestone == 1 && w.client->isAuthenticated()) ||
                            (milestone == 2 && w.client->isConnected()) || (milestone == 4 && authElementsWritten > 0);
                        if (reached || doneLinks.contains(w.link())) {
                            break;
                        }
                        if (milestone == 3 && extra-- <= 0) {
                            break;
                        }
                        if (w.connectPending) {
                            w.resolveConnect(true);
                        } else if (w.tlsPending && w.tlsPolicy != 2) {
                            w.resolveTls(w.tlsPolicy == 0);
                        } else if (!(w.deliver(0) || w.deliver(1))) {
                            break;
                        }
                    }
                } else if (k == QLatin1String("dl")) {
                    w.deliver((int)op.arg(0));
                } else if (k == QLatin1String("prof")) {
                    w.server->profile.set(op.str(0), op.str(1));
                } else if (k == QLatin1String("tlsfail")) {
                    if (w.tlsPending) {
                        if (required && w.link()) {
                            negativeOutcome[w.link()] = true;
                        }
                        w.resolveTls(false);
                    }
                } else if (k == QLatin1String("connect")) {
                    if (w.client->state() == QXmppClient::DisconnectedState && !w.connectPending) {
                        w.connectClient();
                    }
                } else {
                    if (k == QLatin1String("pump") && w.tlsPending && w.tlsPolicy == 1 && required && w.link()) {
                        negativeOutcome[w.link()] = true;
                    }
                    w.applyCommon(op);
                }
                settle();
                w.afterStep();
            }
            // faults have stopped: let everything settle (a stalled handshake stays stalled: silence is not a negative outcome)
            if (w.tlsPending && w.tlsPolicy == 1 && required && w.link()) {
                negativeOutcome[w.link()] = true;
            }
            if (!doneLinks.contains(w.link()) || w.connectPending) {
                w.pump(nullptr);
            }
            settle();
            // give-up: after an explicit negative outcome on its last connection the client is disconnected and never reported a session there
            if (required) {
                for (auto it = negativeOutcome.begin(); it != negativeOutcome.end(); ++it) {
                    w.probe("explicit_negative_tls_outcome");
                    if (connectedOn.value(it.key(), 0) > 0) {
                        w.violation(QStringLiteral("no_give_up"), QStringLiteral("C04:session_after_tls_could_not_be_negotiated"),
                                    QStringLiteral("encryption could not be negotiated on a connection, yet a session was reported on it"));
                    }
                }
                SimLink *last = w.link();
                if (last && negativeOutcome.value(last, false) && !last->encrypted && w.client->state() != QXmppClient::DisconnectedState) {
                    w.violation(QStringLiteral("no_give_up"), QStringLiteral("C04:not_disconnected_after_tls_could_not_be_negotiated"),
                                QStringLiteral("encryption could not be negotiated on the last connection but the client is still in state %1 once everything has been delivered").arg((int)w.client->state()));
                }
            }
            res.nontrivial = required && serverElementsBeforeTls >= 2 && clientElementsAfterHeader >= 1;
            if (!required) {
                w.probe("control_run_tls_not_required");
            }
            w.client->disconnectFromServer();
            w.pump(nullptr);
        }
        res.traceHash = tr.hash.value();
        res.trace = tr.lines;
        return res;
    }

    bool removable(const Plan &plan, int i) override { return i > 1; }
    QVector<Plan> simplerKnobs(const Plan &p) override
    {
        QVector<Plan> out;
        for (const char *k : { "userAgent", "sm", "legacy", "bind2", "mute" }) {
            if (p.knob(QString::fromLatin1(k))) {
                Plan q = p;
                q.knobs[QString::fromLatin1(k)] = 0;
                out << q;
            }
        }
        for (const char *k : { "sasl2", "fast", "q.features", "prefMech", "fastToken" }) {
            if (p.sknobs.contains(QString::fromLatin1(k))) {
                Plan q = p;
                q.sknobs.remove(QString::fromLatin1(k));
                out << q;
            }
        }
        return out;
    }
};

static EngineRegistrar reg(new C04Engine);

}  // namespace
