// C03 — stream framing is independent of how the byte stream is split into reads.
// Real: XmppSocket (readyRead lambda: byte->text decoding, processData framing) over SimSslSocket.
// Schedule space: the partition of the byte stream into reads.
#include "core/engine.h"
#include "net/simsocket.h"

#include "XmppSocket.h"

#include <QDomDocument>
#include <QTextStream>

using namespace sim;
using QXmpp::Private::ServerAddress;
using QXmpp::Private::XmppSocket;

namespace {

struct Events {
    QStringList ev;
};

static QString canon(const QDomElement &el)
{
    QString s;
    QTextStream ts(&s);
    el.save(ts, 0);
    return s;
}

// run the real framing code over `stream` delivered in the given chunks
static QStringList feed(const QByteArray &stream, const QVector<int> &cuts)
{
    QStringList ev;
    auto *sock = new SimSslSocket;
    auto *xs = new XmppSocket(nullptr);
    xs->setSocket(sock);
    QObject::connect(xs, &XmppSocket::started, xs, [&] { ev << QStringLiteral("started"); });
    QObject::connect(xs, &XmppSocket::streamReceived, xs, [&](const QDomElement &e) {
        // only the attributes of the header: its children are reported separately
        QStringList at;
        const auto m = e.attributes();
        for (int i = 0; i < m.count(); ++i) {
            at << m.item(i).nodeName() + QLatin1Char('=') + m.item(i).nodeValue();
        }
        at.sort();
        ev << QStringLiteral("stream:") + at.join(QLatin1Char('|'));
    });
    QObject::connect(xs, &XmppSocket::stanzaReceived, xs, [&](const QDomElement &e) {
        if (e.isNull()) {
            return;   // whitespace keep-alive notification, not a stanza event
        }
        ev << QStringLiteral("stanza:") + canon(e);
    });
    QObject::connect(xs, &XmppSocket::streamClosed, xs, [&] { ev << QStringLiteral("closed"); });
    xs->connectToHost(ServerAddress { ServerAddress::Tcp, QStringLiteral("example.org"), 5222 });
    sock->completeConnect();
    int prev = 0;
    for (int c : cuts) {
        if (c > prev && c <= stream.size()) {
            sock->linkDeliver(stream.mid(prev, c - prev));
            prev = c;
        }
    }
    if (prev < stream.size()) {
        sock->linkDeliver(stream.mid(prev));
    }
    delete xs;
    delete sock;
    return ev;
}

// byte-position classes of a stream
enum PosClass { P_BETWEEN, P_HEADER, P_TAG, P_ATTR, P_TEXT, P_ENTITY, P_CDATA, P_CLOSE, P_UTF8 };
static const char *posName(int p)
{
    static const char *n[] = { "between_stanzas", "in_header", "in_tag", "in_attr_value", "in_text", "in_entity", "in_cdata_or_comment", "in_stream_close", "in_utf8_char" };
    return n[p];
}

static QVector<int> classify(const QByteArray &s)
{
    QVector<int> cls(s.size() + 1, P_BETWEEN);
    int depth = 0;
    int i = 0;
    const int n = s.size();
    auto mark = [&](int from, int to, int c) {
        for (int k = from; k < to && k <= n; ++k) {
            cls[k] = c;
        }
    };
    while (i < n) {
        if (s[i] == '<') {
            if (s.mid(i, 4) == "<!--") {
                int e = s.indexOf("-->", i);
                e = e < 0 ? n : e + 3;
                mark(i + 1, e, P_CDATA);
                i = e;
                continue;
            }
            if (s.mid(i, 9) == "<![CDATA[") {
                int e = s.indexOf("]]>", i);
                e = e < 0 ? n : e + 3;
                mark(i + 1, e, P_CDATA);
                i = e;
                continue;
            }
            if (s.mid(i, 2) == "<?") {
                int e = s.indexOf("?>", i);
                e = e < 0 ? n : e + 2;
                mark(i + 1, e, P_HEADER);
                i = e;
                continue;
            }
            // a tag: find its end, respecting quotes
            int j = i + 1;
            char quote = 0;
            bool closing = j < n && s[j] == '/';
            const bool isStreamTag = s.mid(i, 14) == "<stream:stream" || s.mid(i, 15) == "</stream:stream";
            while (j < n) {
                char c = s[j];
                if (quote) {
                    cls[j] = isStreamTag ? (closing ? P_CLOSE : P_HEADER) : P_ATTR;
                    if (c == quote) {
                        quote = 0;
                    }
                } else {
                    cls[j] = isStreamTag ? (closing ? P_CLOSE : P_HEADER) : P_TAG;
                    if (c == '"' || c == '\'') {
                        quote = c;
                    } else if (c == '>') {
                        break;
                    }
                }
                ++j;
            }
            bool selfClose = j > i && s[j - 1] == '/';
            if (closing) {
                --depth;
            } else if (!selfClose) {
                ++depth;
            }
            i = j + 1;
            continue;
        }
        // character data
        if (depth >= 2) {
            if (s[i] == '&') {
                int e = s.indexOf(';', i);
                e = e < 0 ? n : e + 1;
                cls[i] = P_TEXT;
                mark(i + 1, e, P_ENTITY);
                i = e;
                continue;
            }
            cls[i] = P_TEXT;
        } else {
            cls[i] = P_BETWEEN;
        }
        ++i;
    }
    // attribute-value entities and multi-byte characters
    for (int k = 1; k < n; ++k) {
        if (((unsigned char)s[k] & 0xC0) == 0x80) {
            cls[k] = P_UTF8;
        }
    }
    return cls;
}

// ---------------------------------------------------------------- corpus / generator

static const char *kTexts[] = {
    "hello", "Hello, World!", "a", " leading and trailing ", "line1\nline2", "tab\there",
    "gr\xc3\xbc\xc3\x9f" "e", "\xce\xb1\xce\xb2\xce\xb3 \xce\xb4", "\xe4\xbd\xa0\xe5\xa5\xbd\xe4\xb8\x96\xe7\x95\x8c", "\xf0\x9f\x98\x80 emoji \xf0\x9f\x9a\x80",
    "\xc3\xa9", "x\xe2\x82\xacy", "mixed \xc3\xa4 \xe2\x82\xac \xf0\x9f\x8e\x89 end", "1234567890", "sp ace",
    "</stream:stream>", "<not a tag>", "a&b", "\"quoted\" 'single'", "]]>", "--", "?>", "\xf0\x9d\x84\x9e",
};
static const char *kNames[] = { "body", "subject", "thread", "x", "query", "item", "status", "show", "priority", "error", "text", "data", "value", "field", "ping", "c" };
static const char *kNs[] = { "", "", "", "jabber:x:data", "urn:xmpp:ping", "http://jabber.org/protocol/disco#info", "urn:xmpp:receipts", "urn:example:\xc3\xbc" };

static QByteArray esc(const QByteArray &t, Prng &r, bool attr)
{
    QByteArray o;
    for (char c : t) {
        switch (c) {
        case '<':
            o += r.chance(0.5) ? "&lt;" : "&#60;";
            break;
        case '>':
            o += r.chance(0.7) ? "&gt;" : (attr ? "&#x3E;" : "&gt;");
            break;
        case '&':
            o += r.chance(0.7) ? "&amp;" : "&#38;";
            break;
        case '"':
            o += attr ? "&quot;" : (r.chance(0.5) ? "\"" : "&quot;");
            break;
        case '\'':
            o += attr ? "&apos;" : (r.chance(0.5) ? "'" : "&apos;");
            break;
        case '\n':
        case '\t':
            o += attr ? QByteArray("&#10;") : QByteArray(1, c);
            break;
        default:
            o += c;
        }
    }
    return o;
}

static QByteArray genElement(Prng &r, int depth, const char *forceName = nullptr)
{
    QByteArray name = forceName ? forceName : kNames[r.uniform(sizeof(kNames) / sizeof(*kNames))];
    QByteArray s = "<" + name;
    if (!forceName && r.chance(0.4)) {
        QByteArray ns = kNs[r.uniform(sizeof(kNs) / sizeof(*kNs))];
        if (!ns.isEmpty()) {
            s += " xmlns=" + QByteArray(r.chance(0.5) ? "'" : "\"");
            char q = s.back();
            s += ns + q;
        }
    }
    int nattr = (int)r.uniform(4);
    static const char *an[] = { "id", "to", "from", "type", "xml:lang", "var", "node", "h" };
    QSet<QByteArray> used;
    for (int i = 0; i < nattr; ++i) {
        QByteArray a = an[r.uniform(8)];
        if (used.contains(a)) {
            continue;
        }
        used.insert(a);
        char q = r.chance(0.5) ? '\'' : '"';
        QByteArray v = kTexts[r.uniform(sizeof(kTexts) / sizeof(*kTexts))];
        if (a == "xml:lang") {
            v = "en";
        }
        if (r.chance(0.1)) {
            v = QByteArray((int)r.range(50, 300), 'v');
        }
        s += " " + a + "=" + q + esc(v, r, true) + q;
    }
    int kind = (int)r.uniform(10);
    if (kind == 0 || depth > 3) {
        return s + (r.chance(0.5) ? "/>" : "></" + name + ">");
    }
    s += ">";
    int nchild = (int)r.uniform(depth == 0 ? 4 : 3);
    if (nchild == 0 || r.chance(0.4)) {
        QByteArray t = kTexts[r.uniform(sizeof(kTexts) / sizeof(*kTexts))];
        if (r.chance(0.12) && !t.contains("]]>")) {
            s += "<![CDATA[" + t + "]]>";
        } else {
            s += esc(t, r, false);
        }
        if (r.chance(0.1)) {
            s += "<!-- c\xc3\xb6mment -->";
        }
    }
    for (int i = 0; i < nchild; ++i) {
        s += genElement(r, depth + 1);
        if (r.chance(0.15)) {
            s += r.chance(0.5) ? "\n  " : " ";
        }
    }
    return s + "</" + name + ">";
}

static QByteArray genStream(Prng &r, int &nStanzas, bool &hasClose)
{
    QByteArray s;
    if (r.chance(0.7)) {
        s += r.chance(0.5) ? "<?xml version='1.0'?>" : "<?xml version=\"1.0\" encoding=\"UTF-8\"?>";
    }
    if (r.chance(0.2)) {
        s += "\n";
    }
    QList<QByteArray> attrs = {
        "xmlns='jabber:client'", "xmlns:stream=\"http://etherx.jabber.org/streams\"",
    };
    if (r.chance(0.8)) {
        attrs << "id='s" + QByteArray::number((int)r.uniform(100000)) + "'";
    }
    if (r.chance(0.8)) {
        attrs << (r.chance(0.5) ? "from='example.org'" : "from=\"b\xc3\xbc" "cher.example\"");
    }
    if (r.chance(0.85)) {
        attrs << "version='1.0'";
    }
    if (r.chance(0.5)) {
        attrs << "xml:lang='en'";
    }
    for (int i = attrs.size() - 1; i > 0; --i) {
        attrs.swapItemsAt(i, (int)r.uniform(i + 1));
    }
    s += "<stream:stream";
    for (const auto &a : attrs) {
        s += (r.chance(0.1) ? "\n    " : " ") + a;
    }
    s += ">";
    nStanzas = (int)r.range(1, 12);
    static const char *top[] = { "message", "presence", "iq", "message", "iq" };
    for (int i = 0; i < nStanzas; ++i) {
        int k = (int)r.uniform(12);
        if (k == 0) {
            s += "<stream:features><starttls xmlns='urn:ietf:params:xml:ns:xmpp-tls'/><mechanisms xmlns='urn:ietf:params:xml:ns:xmpp-sasl'><mechanism>SCRAM-SHA-1</mechanism><mechanism>PLAIN</mechanism></mechanisms></stream:features>";
        } else if (k == 1) {
            s += "<a xmlns='urn:xmpp:sm:3' h='" + QByteArray::number((int)r.uniform(1000)) + "'/>";
        } else if (k == 2) {
            s += "<r xmlns=\"urn:xmpp:sm:3\"/>";
        } else {
            s += genElement(r, 0, top[r.uniform(5)]);
        }
        if (r.chance(0.25)) {
            static const char *ws[] = { " ", "\n", "\r\n", "  \n  ", "\t" };
            s += ws[r.uniform(5)];
        }
    }
    hasClose = r.chance(0.5);
    if (hasClose) {
        s += "</stream:stream>";
    }
    return s;
}

// what differs between two event lists
static QString diffKind(const QStringList &base, const QStringList &got)
{
    if (got.size() < base.size()) {
        // prefix?
        bool prefix = true;
        for (int i = 0; i < got.size(); ++i) {
            prefix = prefix && got[i] == base[i];
        }
        return prefix ? QStringLiteral("lost_tail") : QStringLiteral("lost_or_altered");
    }
    if (got.size() > base.size()) {
        return QStringLiteral("extra_or_duplicated");
    }
    QStringList a = base, b = got;
    a.sort();
    b.sort();
    if (a == b) {
        return QStringLiteral("reordered");
    }
    return QStringLiteral("content_altered");
}

class C03Engine : public Engine
{
public:
    QString property() const override { return QStringLiteral("C03"); }
    QString describe() const override
    {
        return QStringLiteral("real: XmppSocket (byte->text decoding + framing) ; stub: SimSslSocket byte source ; schedule: partition of the stream into reads");
    }

    Plan generate(quint64 seed, const QString &tier) override
    {
        Plan p;
        Prng r(derive(seed, "c03"));
        int n;
        bool hc;
        QByteArray stream;
        // keep streams small enough that the exhaustive 2-way sweep stays cheap
        const int maxLen = tier == QLatin1String("thorough") ? 2048 : 900;
        for (int tries = 0; tries < 20; ++tries) {
            stream = genStream(r, n, hc);
            if (stream.size() <= maxLen) {
                break;
            }
        }
        if (stream.size() > maxLen) {
            Prng r2(derive(seed, "c03small"));
            stream = genStream(r2, n, hc).left(0);
            stream = "<?xml version='1.0'?><stream:stream xmlns='jabber:client' xmlns:stream='http://etherx.jabber.org/streams' version='1.0'><message><body>gr\xc3\xbc\xc3\x9f" "e</body></message><presence/>";
        }
        p.sknobs[QStringLiteral("stream")] = QString::fromUtf8(stream);
        const int len = stream.size();
        // every 2-way split, exhaustively
        p.ops.append(mkop(QStringLiteral("split2"), { 1, len }));
        // one byte per read
        p.ops.append(mkop(QStringLiteral("bytewise")));
        // random k-way splits
        int nk = (int)r.range(6, 16);
        for (int i = 0; i < nk; ++i) {
            int k = (int)r.range(2, 9);
            QVector<qint64> cuts;
            for (int j = 0; j < k; ++j) {
                cuts.append(r.range(1, std::max(1, len - 1)));
            }
            std::sort(cuts.begin(), cuts.end());
            p.ops.append(mkop(QStringLiteral("part"), cuts));
        }
        // splits forced into each position class (one 3-way split per class present)
        const auto cls = classify(stream);
        for (int c = P_BETWEEN; c <= P_UTF8; ++c) {
            QVector<int> where;
            for (int i = 1; i < len; ++i) {
                if (cls[i] == c) {
                    where.append(i);
                }
            }
            if (where.isEmpty()) {
                continue;
            }
            QVector<qint64> cuts;
            for (int j = 0; j < 3; ++j) {
                cuts.append(where[(int)r.uniform(where.size())]);
            }
            std::sort(cuts.begin(), cuts.end());
            p.ops.append(mkop(QStringLiteral("part"), cuts));
        }
        return p;
    }

    RunResult execute(const Plan &plan, bool verbose) override
    {
        RunResult res;
        Trace tr(verbose);
        const QByteArray stream = plan.sknob(QStringLiteral("stream")).toUtf8();
        const QStringList base = feed(stream, {});
        tr.log(QStringLiteral("stream bytes=%1 baseline events=%2").arg(stream.size()).arg(base.size()));
        for (const auto &e : base) {
            tr.note(QStringLiteral("base: ") + e.left(200));
        }
        const auto cls = classify(stream);
        int stanzas = 0;
        for (const auto &e : base) {
            if (e.startsWith(QLatin1String("stanza:"))) {
                ++stanzas;
            }
        }
        // sanity side-check (never a violation source): the one-read delivery must itself see the generator's
        // structure (a header and at least one stanza); otherwise the case is dropped and counted.
        if (base.size() < 3 || !base.value(1).startsWith(QLatin1String("stream:"))) {
            res.probes[QStringLiteral("dropped_baseline_unusable")]++;
            res.traceHash = tr.hash.value();
            res.trace = tr.lines;
            return res;
        }
        bool insideSplit = false;
        int partitions = 0;
        QSet<QString> reported;
        auto check = [&](const QVector<int> &cuts) {
            ++partitions;
            const QStringList got = feed(stream, cuts);
            for (int c : cuts) {
                if (c > 0 && c < stream.size()) {
                    res.faults[QStringLiteral("split_") + QLatin1String(posName(cls[c]))]++;
                    if (cls[c] != P_BETWEEN) {
                        insideSplit = true;
                    }
                }
            }
            if (got != base) {
                // classify by the most specific position class among the cuts
                int worst = P_BETWEEN;
                for (int c : cuts) {
                    if (c > 0 && c < stream.size() && cls[c] > worst) {
                        worst = cls[c];
                    }
                }
                const QString kind = diffKind(base, got);
                const QString sig = QStringLiteral("C03:%1:split_%2").arg(kind, QLatin1String(posName(worst)));
                if (!reported.contains(sig)) {
                    reported.insert(sig);
                    QStringList cs;
                    for (int c : cuts) {
                        cs << QString::number(c);
                    }
                    QString first;
                    for (int i = 0; i < std::max(base.size(), got.size()); ++i) {
                        if (base.value(i) != got.value(i)) {
                            first = QStringLiteral("event %1: one-read=[%2] split=[%3]").arg(i).arg(base.value(i).left(160), got.value(i).left(160));
                            break;
                        }
                    }
                    res.violations.append(Violation { QStringLiteral("framing_differs"), sig,
                                                      QStringLiteral("cuts at [%1] of %2 bytes: %3").arg(cs.join(QLatin1Char(','))).arg(stream.size()).arg(first),
                                                      partitions });
                }
                tr.log(QStringLiteral("DIFF ") + sig);
            }
        };
        for (const auto &op : plan.ops) {
            if (op.kind == QLatin1String("split2")) {
                for (int c = (int)op.arg(0); c < (int)op.arg(1) && c < stream.size(); ++c) {
                    check({ c });
                }
            } else if (op.kind == QLatin1String("bytewise")) {
                QVector<int> cuts;
                for (int c = 1; c < stream.size(); ++c) {
                    cuts.append(c);
                }
                check(cuts);
            } else if (op.kind == QLatin1String("part")) {
                QVector<int> cuts;
                for (auto v : op.a) {
                    cuts.append((int)v);
                }
                check(cuts);
            }
        }
        tr.log(QStringLiteral("partitions=%1").arg(partitions));
        res.steps = partitions;
        res.probes[QStringLiteral("partitions")] = partitions;
        res.probes[QStringLiteral("stanzas")] = stanzas;
        res.nontrivial = insideSplit && stanzas >= 2;
        res.traceHash = tr.hash.value() ^ qHash(plan.sknob(QStringLiteral("stream")));
        res.trace = tr.lines;
        return res;
    }

    QVector<Op> simplerOps(const Op &op) override
    {
        QVector<Op> out;
        if (op.kind == QLatin1String("split2")) {
            qint64 lo = op.arg(0), hi = op.arg(1);
            if (hi - lo > 1) {
                qint64 mid = (lo + hi) / 2;
                out << mkop(QStringLiteral("split2"), { lo, mid }) << mkop(QStringLiteral("split2"), { mid, hi });
            }
        } else if (op.kind == QLatin1String("bytewise")) {
            // nothing simpler that is still the same schedule
        } else if (op.kind == QLatin1String("part") && op.a.size() > 1) {
            for (int i = 0; i < op.a.size(); ++i) {
                Op o = op;
                o.a.remove(i);
                out << o;
            }
        }
        return out;
    }
};

static EngineRegistrar reg(new C03Engine);

}  // namespace
