// C19 — a file transfer reported successful delivered exactly the bytes that were sent (in-band bytestreams).
// Topology b: scripted IBB sender (any block size, faults on the block sequence) against a real receiver.
// Topology c: real sender against a scripted IBB receiver.
#include "session_world.h"

#include "net/simtcp.h"
#include "peers/crypto.h"

#include "QXmppTransferManager.h"

#include <QBuffer>
#include <QFile>
#include <QFileInfo>
#include <QTemporaryDir>

using namespace sim;

namespace {

// a QIODevice that can fail or shorten a write
class FaultyBuffer : public QIODevice
{
public:
    QByteArray data;
    int writes = 0;
    int failAt = -1;    // the k-th write returns -1
    int shortAt = -1;   // the k-th write stores only half of the bytes
    qint64 readPos = 0;
    bool isSequential() const override { return true; }

protected:
    qint64 readData(char *d, qint64 max) override
    {
        qint64 n = qMin<qint64>(max, data.size() - readPos);
        if (n > 0) {
            memcpy(d, data.constData() + readPos, n);
            readPos += n;
        }
        return n;
    }
    qint64 writeData(const char *d, qint64 len) override
    {
        const int k = writes++;
        if (k == failAt) {
            return -1;
        }
        if (k == shortAt && len > 1) {
            data.append(d, (int)(len / 2));
            return len / 2;
        }
        data.append(d, (int)len);
        return len;
    }
};

static const char *kPeer = "bob@contacts.example/phone";
static const char *NS_IBB = "http://jabber.org/protocol/ibb";
static const char *announceNames[] = { "size_and_hash", "size_only", "hash_only", "nothing_announced" };

class C19Engine : public Engine
{
    // accept-by-path mode: the destination file on a real (temporary) directory
    int m_pathMode = 0;
    QString m_destPath;
    std::unique_ptr<QTemporaryDir> m_tmp;
    void preparePath(const Plan &plan, const QByteArray &file, RunResult &res)
    {
        m_pathMode = (int)plan.knob(QStringLiteral("acceptPath"));
        m_tmp.reset();
        m_destPath.clear();
        if (!m_pathMode) {
            return;
        }
        m_tmp = std::make_unique<QTemporaryDir>();
        m_destPath = m_tmp->filePath(QStringLiteral("received.bin"));
        if (m_pathMode >= 2) {
            QFile f(m_destPath);
            if (f.open(QIODevice::WriteOnly)) {
                f.write(QByteArray(m_pathMode == 2 ? file.size() / 2 : file.size() + 1 + file.size() / 3, '#'));
            }
        }
        res.faults[m_pathMode == 1 ? QStringLiteral("stored_under_a_fresh_path") : (m_pathMode == 2 ? QStringLiteral("destination_exists_shorter") : QStringLiteral("destination_exists_longer"))]++;
    }
    void acceptJob(QXmppTransferJob *j, QIODevice *device)
    {
        if (m_pathMode) {
            j->accept(m_destPath);
        } else {
            j->accept(device);
        }
    }
    // what the receiver holds: the destination file in path mode
    void loadPath(QByteArray &into)
    {
        if (m_pathMode) {
            QFile f(m_destPath);
            into = f.open(QIODevice::ReadOnly) ? f.readAll() : QByteArray("<destination file missing>");
        }
    }

public:
    QString property() const override { return QStringLiteral("C19"); }
    QString describe() const override
    {
        return QStringLiteral("real: QXmppTransferManager (stream initiation, in-band bytestreams, size/hash verification), QXmppTransferIncomingJob/OutgoingJob, QXmppClient ; "
                              "stub: transport, ScriptedServer relaying to a scripted IBB peer (sender with arbitrary block size and faults on the block sequence, or receiver), FaultyBuffer device ; or (15 %) a second real client with its own transfer manager reached through a faulty relay ; the SOCKS5 *receive* path (14 %) through QXmppSocksClient on a simulated TCP layer with a scripted stream host ; or (13 %) two real clients with a SOCKS5 bytestream through a scripted mediating proxy (both QXmppSocksClient connections on the simulated TCP layer in buffered mode, proxy relays with faults) ; the direct SOCKS5 path to the sender's own QXmppSocksServer/QTcpServer is not simulated");
    }

    Plan generate(quint64 seed, const QString &tier) override
    {
        Plan p;
        Prng r(derive(seed, "c19"));
        auto &k = p.knobs;
        k[QStringLiteral("scramIter")] = 1;
        p.sknobs[QStringLiteral("sasl1")] = QStringLiteral("SCRAM-SHA-1");
        k[QStringLiteral("sm")] = r.chance(0.3) ? 1 : 0;
        k[QStringLiteral("autoAck")] = 1;
        k[QStringLiteral("autoReconnect")] = 0;
        const int topo = r.weighted({ 44, 18, 11, 14, 13 });   // 0: scripted sender -> real receiver, 1: real sender -> scripted receiver, 2: real sender -> real receiver through a faulty relay, 3: scripted sender -> real receiver over a SOCKS5 bytestream, 4: two real clients, SOCKS5 through a scripted mediating proxy
        k[QStringLiteral("topology")] = topo;
        const int drawn = r.pick(QVector<int> { 1, 2, 3, 7, 16, 64, 255, 256, 1000, 4096 });
        const int block = (topo == 1 || topo == 2) ? 4096 : drawn;
        k[QStringLiteral("block")] = block;
        int size;
        switch (r.uniform(8)) {
        case 0: size = 0; break;
        case 1: size = 1; break;
        case 2: size = std::max(0, block - 1); break;
        case 3: size = block; break;
        case 4: size = block + 1; break;
        case 5: size = 2 * block; break;
        default: size = (int)r.range(0, std::min(64 * 1024, block * 40));
        }
        if (topo == 0 && r.chance(tier == QLatin1String("thorough") ? 0.004 : 0.001)) {
            k[QStringLiteral("block")] = 1;
            size = 65536 + (int)r.range(1, 40);   // more than 65536 blocks: the 16-bit sequence number wraps
        }
        k[QStringLiteral("size")] = size;
        // what the offer announces: 0 size+hash, 1 size only, 2 hash only, 3 neither
        k[QStringLiteral("announce")] = r.weighted({ 40, 35, 15, 10 });
        // fault on the block sequence (topology 0) / on the acknowledgements (topology 1)
        const int fault = r.weighted({ 28, 9, 9, 9, 9, 8, 6, 6, 6, 4, 4, 10 });
        // 11: a third party (other account / other resource of the sender's account / its bare JID) injects a block with the expected sequence number, optionally followed by a close
        // 0 none, 1 drop block, 2 duplicate, 3 swap adjacent, 4 bit flip, 5 early close, 6 wrong sid, 7 wrong sender, 8 link cut, 9 device write error, 10 device short write
        k[QStringLiteral("fault")] = fault;
        k[QStringLiteral("faultAt")] = r.range(0, 12);
        k[QStringLiteral("who")] = r.uniform(3);          // which wrong sender: 0 another account, 1 another resource of the sender's account, 2 the sender's bare JID
        k[QStringLiteral("forgedClose")] = r.chance(0.5);
        k[QStringLiteral("onError")] = r.chance(0.6) ? 0 : 1;   // the scripted sender aborts (0) or carries on (1) after a rejected block
        k[QStringLiteral("contentSeed")] = (qint64)(r.next() & 0x7fffffff);
        {
            // a sender that announces far more than it delivers (sizes beyond 31/32 bits are legal: the size is a 64-bit value)
            Prng rh(derive(seed, "c19huge"));
            if (topo == 0 && rh.chance(0.04)) {
                k[QStringLiteral("hugeSize")] = 1 + (qint64)rh.uniform(4);
                k[QStringLiteral("announce")] = rh.chance(0.8) ? 1 : 0;
                k[QStringLiteral("fault")] = 0;
            }
        }
        {
            // the receiver stores the file under a path (accept(const QString &)) instead of in a device it was given; the
            // destination may already exist, shorter or longer than what arrives (own stream, other draws unchanged)
            Prng rp(derive(seed, "c19path"));
            if (rp.chance(0.1)) {
                k[QStringLiteral("acceptPath")] = 1 + (qint64)rp.uniform(3);   // 1 fresh path, 2 shorter file exists, 3 longer file exists
            }
        }
        p.ops.append(mkop(QStringLiteral("connect")));
        p.ops.append(mkop(QStringLiteral("pump")));
        p.ops.append(mkop(QStringLiteral("transfer"), {}, {}, (quint32)r.next()));
        return p;
    }

    RunResult execute(const Plan &plan, bool verbose) override
    {
        RunResult res;
        Trace tr(verbose);
        struct RemoveTmp {
            C19Engine *e;
            ~RemoveTmp() { e->m_tmp.reset(); }
        } removeTmp { this };   // after the world (and with it the job's open file) is gone
        {
            SessionWorld w(plan, tr, res);
            QObject ctx;
            const int topology = (int)plan.knob(QStringLiteral("topology"));
            // the real sender always uses 4096-byte blocks
            const int block = (plan.knob(QStringLiteral("topology")) == 1 || plan.knob(QStringLiteral("topology")) == 2) ? 4096 : (int)std::max<qint64>(1, plan.knob(QStringLiteral("block"), 4096));
            const int size = (int)plan.knob(QStringLiteral("size"));
            const int announce = (int)plan.knob(QStringLiteral("announce"));
            int fault = (int)plan.knob(QStringLiteral("fault"));
            const int faultAt = (int)plan.knob(QStringLiteral("faultAt"));
            const bool carryOn = plan.knob(QStringLiteral("onError")) == 1;
            Prng content((quint64)plan.knob(QStringLiteral("contentSeed")));
            const QByteArray file = content.bytes(size);
            const QByteArray md5 = simcrypto::hash("MD5", file);
            const int nBlocks = (size + block - 1) / block;
            preparePath(plan, file, res);
            if (m_pathMode && (fault == 9 || fault == 10)) {
                fault = 0;   // device faults belong to the device the harness hands over, not to a path
            }
            const bool sizeAnnounced = announce == 0 || announce == 1, hashAnnounced = announce == 0 || announce == 2;
            // a bit flip can only be noticed through a hash; a device problem only if something is announced
            if (fault == 4 && !hashAnnounced) {
                fault = 0;
            }
            // a stream that ends early on a block boundary can only be noticed through an announced size or hash
            if (fault == 5 && announce == 3) {
                fault = 0;
            }
            static const char *wrongSenders[] = { "mallory@stranger.example/x", "bob@contacts.example/tablet", "bob@contacts.example" };
            const QByteArray wrongSender = wrongSenders[plan.knob(QStringLiteral("who")) % 3];
            const bool forgedClose = plan.knob(QStringLiteral("forgedClose")) == 1;
            if (fault != 0 && fault != 8 && fault < 9 && nBlocks == 0) {
                fault = 0;   // nothing to tamper with
            }

            if (topology == 3) {
                runSocks(plan, tr, res, w, file, md5, block, announce, (int)plan.knob(QStringLiteral("fault")), faultAt);
                res.traceHash = tr.hash.value();
                res.trace = tr.lines;
                return res;
            }
            if (topology == 4) {
                runSocksProxy(plan, tr, res, w, file, md5, block, announce, (int)plan.knob(QStringLiteral("fault")), faultAt);
                res.traceHash = tr.hash.value();
                res.trace = tr.lines;
                return res;
            }
            if (topology == 2) {
                runTwoClients(plan, tr, res, w, file, md5, nBlocks, announce, fault, faultAt);
                res.traceHash = tr.hash.value();
                res.trace = tr.lines;
                return res;
            }
            w.createClient(QXmppClient::NoExtensions);
            auto *tm = w.client->addNewExtension<QXmppTransferManager>();
            tm->setSupportedMethods(QXmppTransferJob::InBandMethod);
            FaultyBuffer device;
            device.open(QIODevice::ReadWrite);
            QPointer<QXmppTransferJob> job;
            bool jobFinished = false;
            int jobError = -1;
            QObject::connect(tm, &QXmppTransferManager::fileReceived, &ctx, [&](QXmppTransferJob *j) {
                job = j;
                QObject::connect(j, &QXmppTransferJob::finished, &ctx, [&, j] {
                    jobFinished = true;
                    jobError = (int)j->error();
                    tr.log(QStringLiteral("receiver job finished with error %1").arg(jobError));
                });
                acceptJob(j, &device);
            });
            // everything the client sends to the peer is held for the scripted peer
            QList<QByteArray> toPeer;
            w.server->onSessionStanza = [&](ServerConn &, const QDomElement &el, const QByteArray &raw) {
                if (el.attribute(QStringLiteral("to")) == QLatin1String(kPeer)) {
                    toPeer.append(raw);
                    return true;
                }
                return false;
            };
            for (const auto &op : plan.ops) {
                if (op.kind != QLatin1String("transfer")) {
                    w.applyCommon(op);
                    w.afterStep();
                }
            }
            if (!w.client->isConnected()) {
                res.probes[QStringLiteral("session_not_established")]++;
                res.traceHash = tr.hash.value();
                res.trace = tr.lines;
                return res;
            }
            ServerConn *conn = w.server->current();
            const QByteArray to = conn->fullJid.toUtf8();
            const QByteArray sid = "sid" + QByteArray::number((int)content.uniform(100000));
            int idNo = 0;
            auto peerSend = [&](const QByteArray &xml) {
                if (auto *c = w.server->current()) {
                    c->sendStanza(xml);
                }
                w.pump(nullptr);
            };
            auto takeReply = [&](const QByteArray &id) -> QString {
                // the client's reply to the peer's IQ with this id: "result", "error" or "" (none)
                for (int i = 0; i < toPeer.size(); ++i) {
                    QDomDocument doc;
                    const QDomElement el = simxml::parse(toPeer[i], doc);
                    if (el.tagName() == QLatin1String("iq") && el.attribute(QStringLiteral("id")) == QString::fromLatin1(id)) {
                        toPeer.removeAt(i);
                        return el.attribute(QStringLiteral("type"));
                    }
                }
                return {};
            };
            bool faultFired = false;
            bool jobSawBrokenSequence = false;   // the receiver refused a block that belonged to the job
            bool streamChanged = false;   // the accepted byte stream differs from the file (shortened, altered, reordered)

            if (topology == 0) {
                // ---------------- scripted sender -> real receiver
                QByteArray offer = "<iq type='set' id='si1' from='" + QByteArray(kPeer) + "' to='" + to + "'><si xmlns='http://jabber.org/protocol/si' id='" + sid +
                    "' profile='http://jabber.org/protocol/si/profile/file-transfer' mime-type='application/octet-stream'><file xmlns='http://jabber.org/protocol/si/profile/file-transfer' name='f.bin'";
                const int hugeKind = sizeAnnounced ? (int)plan.knob(QStringLiteral("hugeSize")) : 0;
                static const qint64 hugeBase[] = { 0, Q_INT64_C(2147483648), Q_INT64_C(4294967296), Q_INT64_C(5000000000), Q_INT64_C(1099511627776) };
                const qint64 announcedSize = hugeKind ? hugeBase[hugeKind] + size : size;
                if (sizeAnnounced) {
                    offer += " size='" + QByteArray::number(announcedSize) + "'";
                }
                if (hashAnnounced) {
                    offer += " hash='" + md5.toHex() + "'";
                }
                offer += "/><feature xmlns='http://jabber.org/protocol/feature-neg'><x xmlns='jabber:x:data' type='form'><field var='stream-method' type='list-single'><option><value>http://jabber.org/protocol/ibb</value></option></field></x></feature></si></iq>";
                if (hugeKind) {
                    faultFired = true;
                    res.faults[QStringLiteral("stream_ends_long_before_an_announced_size_beyond_31_bits")]++;
                }
                if (fault == 9) {
                    device.failAt = faultAt % std::max(1, nBlocks);
                } else if (fault == 10) {
                    device.shortAt = faultAt % std::max(1, nBlocks);
                }
                peerSend(offer);
                const bool accepted = takeReply("si1") == QLatin1String("result");
                if (!accepted || !job) {
                    res.probes[QStringLiteral("offer_not_accepted")]++;
                } else {
                    peerSend("<iq type='set' id='open1' from='" + QByteArray(kPeer) + "' to='" + to + "'><open xmlns='" + NS_IBB + "' block-size='" + QByteArray::number(block) + "' sid='" + sid + "' stanza='iq'/></iq>");
                    if (takeReply("open1") != QLatin1String("result")) {
                        res.probes[QStringLiteral("open_refused")]++;
                    } else {
                        // the block sequence the sender intends, then the faults
                        struct Blk {
                            int seq;
                            QByteArray payload;
                            QByteArray sid;
                            QByteArray from;
                            bool injected = false;
                        };
                        QList<Blk> seqn;
                        for (int i = 0; i < nBlocks; ++i) {
                            seqn.append({ i & 0xffff, file.mid(i * block, block), sid, kPeer });
                        }
                        const int at = nBlocks ? faultAt % nBlocks : 0;
                        bool cutAfter = false;
                        switch (fault) {
                        case 1:
                            seqn.removeAt(at);
                            faultFired = true;
                            streamChanged = true;
                            res.faults[QStringLiteral("block_dropped")]++;
                            break;
                        case 2:
                            seqn.insert(at, seqn[at]);
                            faultFired = true;
                            res.faults[QStringLiteral("block_duplicated")]++;
                            break;
                        case 3:
                            if (nBlocks >= 2) {
                                const int a = std::min(at, nBlocks - 2);
                                seqn.swapItemsAt(a, a + 1);
                                faultFired = true;
                                streamChanged = true;
                                res.faults[QStringLiteral("blocks_swapped")]++;
                            }
                            break;
                        case 4: {
                            QByteArray &pl = seqn[at].payload;
                            pl[(int)(content.uniform(pl.size()))] = pl[0] ^ 0x20 ^ (char)(1 << content.uniform(7));
                            if (pl != file.mid(at * block, block)) {
                                faultFired = true;
                                streamChanged = true;
                                res.faults[QStringLiteral("payload_bit_flipped")]++;
                            }
                            break;
                        }
                        case 5:
                            while (seqn.size() > at) {
                                seqn.removeLast();
                            }
                            faultFired = true;
                            streamChanged = true;
                            res.faults[QStringLiteral("stream_closed_early")]++;
                            break;
                        case 6:
                            seqn[at].sid = "othersid";
                            faultFired = true;
                            streamChanged = true;
                            res.faults[QStringLiteral("block_with_wrong_sid")]++;
                            break;
                        case 7:
                            seqn[at].from = wrongSender;
                            faultFired = true;
                            streamChanged = true;
                            res.faults[QStringLiteral("block_from_wrong_sender")]++;
                            break;
                        case 8:
                            cutAfter = true;
                            break;
                        case 11: {
                            const int pos = faultAt % (nBlocks + 1);
                            Blk forged { pos & 0xffff, content.bytes(block), sid, wrongSender, true };
                            seqn.insert(pos, forged);
                            faultFired = true;
                            res.faults[QStringLiteral("third_party_injects_block")]++;
                            break;
                        }
                        case 9:
                        case 10:
                            faultFired = nBlocks > 0;
                            streamChanged = nBlocks > 0;
                            res.faults[fault == 9 ? QStringLiteral("device_write_error") : QStringLiteral("device_short_write")]++;
                            break;
                        default:
                            break;
                        }
                        bool aborted = false;
                        int sentBlocks = 0;
                        for (const auto &b : std::as_const(seqn)) {
                            const QByteArray id = "d" + QByteArray::number(++idNo);
                            peerSend("<iq type='set' id='" + id + "' from='" + b.from + "' to='" + to + "'><data xmlns='" + NS_IBB + "' seq='" + QByteArray::number(b.seq) + "' sid='" + b.sid + "'>" + b.payload.toBase64() + "</data></iq>");
                            if (b.injected) {
                                const QString ack = takeReply(id);
                                if (ack == QLatin1String("result")) {
                                    res.probes[QStringLiteral("injected_block_acknowledged")]++;
                                }
                                if (forgedClose) {
                                    peerSend("<iq type='set' id='fclose' from='" + b.from + "' to='" + to + "'><close xmlns='" + NS_IBB + "' sid='" + sid + "'/></iq>");
                                    takeReply("fclose");
                                    res.faults[QStringLiteral("third_party_sends_close")]++;
                                }
                                continue;
                            }
                            ++sentBlocks;
                            const QString ack = takeReply(id);
                            if (ack != QLatin1String("result") && b.sid == sid && b.from == kPeer) {
                                jobSawBrokenSequence = true;
                            }
                            if (ack != QLatin1String("result")) {
                                res.probes[QStringLiteral("block_rejected_by_receiver")]++;
                                if (!carryOn) {
                                    aborted = true;
                                    streamChanged = streamChanged || sentBlocks <= nBlocks;
                                    break;
                                }
                            }
                            if (cutAfter && sentBlocks > faultAt % std::max(1, nBlocks)) {
                                w.cutLink();
                                faultFired = true;
                                streamChanged = true;
                                res.faults[QStringLiteral("link_cut_mid_transfer")]++;
                                break;
                            }
                        }
                        if (!(cutAfter && faultFired)) {
                            peerSend("<iq type='set' id='close1' from='" + QByteArray(kPeer) + "' to='" + to + "'><close xmlns='" + NS_IBB + "' sid='" + sid + "'/></iq>");
                        }
                        Q_UNUSED(aborted);
                    }
                }
                w.pump(nullptr);
                settle();
                loadPath(device.data);
                const bool exact = device.data == file;
                // what the job says now may differ from what it said when it finished (a later stanza must not turn a failed
                // transfer into a successful one)
                if (job && jobFinished && (int)job->error() != jobError) {
                    tr.log(QStringLiteral("receiver job error changed after finished(): %1 -> %2").arg(jobError).arg((int)job->error()));
                    if (job->error() == QXmppTransferJob::NoError) {
                        jobError = (int)QXmppTransferJob::NoError;
                        res.probes[QStringLiteral("job_error_rewritten_after_finished")]++;
                    }
                }
                tr.log(QStringLiteral("receiver: finished=%1 error=%2 received=%3/%4 exact=%5").arg(jobFinished).arg(jobError).arg(device.data.size()).arg(size).arg(exact));
                const QString shape = QStringLiteral("%1:%2").arg(fault == 0 ? QStringLiteral("no_fault") : QStringLiteral("fault%1").arg(fault), QLatin1String(announceNames[announce & 3]));
                // with neither size nor hash announced a stream that simply ends early looks complete to any receiver
                const bool undetectable = announce == 3 && !jobSawBrokenSequence && (fault == 1 || fault == 5 || fault == 6 || fault == 7 || fault == 8);
                if (undetectable && !exact) {
                    res.probes[QStringLiteral("truncation_no_receiver_could_notice")]++;
                }
                if (jobFinished && jobError == QXmppTransferJob::NoError && !exact && !undetectable) {
                    static const char *names[] = { "none", "block_dropped", "block_duplicated", "blocks_swapped", "bit_flip", "early_close", "wrong_sid", "wrong_sender", "link_cut", "device_write_error", "device_short_write", "third_party_block" };
                    res.violations.append(Violation { QStringLiteral("success_with_wrong_bytes"), QStringLiteral("C19:receiver_reports_success_but_copy_differs:%1:%2").arg(QLatin1String(names[fault]), QLatin1String(announceNames[announce & 3])),
                                                      QStringLiteral("the receiver finished with NoError but holds %1 bytes that differ from the %2 bytes sent (block size %3, fault %4 at %5, announced: %6)").arg(device.data.size()).arg(size).arg(block).arg(QLatin1String(names[fault])).arg(faultAt).arg(shape), 0 });
                }
                if (hugeKind && jobFinished && jobError == QXmppTransferJob::NoError) {
                    res.violations.append(Violation { QStringLiteral("success_with_wrong_bytes"), QStringLiteral("C19:receiver_reports_success_but_stream_ended_before_the_announced_size:%1").arg(QLatin1String(announceNames[announce & 3])),
                                                      QStringLiteral("the offer announced %1 bytes, the stream was closed after %2 bytes, the receiver finished with NoError").arg(announcedSize).arg(device.data.size()), 0 });
                }
                // stanzas of a third party must leave the transfer alone: the genuine stream is intact and must succeed
                if (fault == 11 && job && (!jobFinished || jobError != QXmppTransferJob::NoError || !exact)) {
                    res.violations.append(Violation { QStringLiteral("third_party_disturbed_transfer"), QStringLiteral("C19:stanza_of_a_third_party_disturbed_the_transfer:%1").arg(QString::fromLatin1(wrongSender).contains(QLatin1String("mallory")) ? QStringLiteral("other_account") : QStringLiteral("same_account")),
                                                      QStringLiteral("%1 injected a block (and %2close) into an otherwise intact transfer; the receiver ended with finished=%3 error=%4 and %5/%6 bytes, exact=%7").arg(QString::fromLatin1(wrongSender), forgedClose ? QString() : QStringLiteral("no ")).arg(jobFinished).arg(jobError).arg(device.data.size()).arg(size).arg(exact), 0 });
                }
                if (!faultFired && job && (!jobFinished || jobError != QXmppTransferJob::NoError || !exact)) {
                    res.violations.append(Violation { QStringLiteral("fault_free_transfer_failed"), QStringLiteral("C19:fault_free_transfer_did_not_succeed:%1").arg(nBlocks > 65536 ? QStringLiteral("more_than_65536_blocks") : QStringLiteral("ordinary")),
                                                      QStringLiteral("no fault was injected, yet the receiver ended with finished=%1 error=%2 and %3/%4 bytes (block size %5, %6 blocks)").arg(jobFinished).arg(jobError).arg(device.data.size()).arg(size).arg(block).arg(nBlocks), 0 });
                }
                if (nBlocks > 65536) {
                    res.probes[QStringLiteral("transfer_with_more_than_65536_blocks")]++;
                }
                res.nontrivial = faultFired ? true : nBlocks >= 2;
                res.caseKey = QStringLiteral("t0|%1|%2|%3|%4|%5|%6").arg(block).arg(size).arg(announce).arg(fault).arg(faultAt).arg(carryOn) + QStringLiteral("|%1|%2").arg(plan.knob(QStringLiteral("who"))).arg(forgedClose);
            } else {
                // ---------------- real sender -> scripted receiver
                QBuffer src;
                src.setData(file);
                src.open(QIODevice::ReadOnly);
                QXmppTransferFileInfo info;
                info.setName(QStringLiteral("f.bin"));
                info.setSize(size);
                if (hashAnnounced) {
                    info.setHash(md5);
                }
                QXmppTransferJob *out = tm->sendFile(QString::fromLatin1(kPeer), &src, info, QString::fromLatin1(sid));
                bool outFinished = false;
                int outError = -1;
                QObject::connect(out, &QXmppTransferJob::finished, &ctx, [&] {
                    outFinished = true;
                    outError = (int)out->error();
                });
                w.pump(nullptr);
                QByteArray got;
                int expectSeq = 0;
                bool peerSawClose = false, peerRejected = false;
                const int rejectAt = (fault == 1 || fault == 5) && nBlocks > 0 ? faultAt % nBlocks : -1;   // the receiver answers one block with an error
                const int ackFaultAt = nBlocks > 0 ? faultAt % nBlocks : -1;
                QByteArray lastAckedId;
                for (int guard = 0; guard < 80000; ++guard) {
                    if (toPeer.isEmpty()) {
                        w.pump(nullptr);
                        if (toPeer.isEmpty()) {
                            break;
                        }
                    }
                    const QByteArray raw = toPeer.takeFirst();
                    QDomDocument doc;
                    const QDomElement el = simxml::parse(raw, doc);
                    if (el.tagName() != QLatin1String("iq")) {
                        continue;
                    }
                    const QByteArray id = el.attribute(QStringLiteral("id")).toUtf8();
                    const QDomElement pl = el.firstChildElement();
                    const QByteArray head = "<iq id='" + id + "' from='" + QByteArray(kPeer) + "' to='" + to + "'";
                    if (pl.tagName() == QLatin1String("si")) {
                        peerSend(head + " type='result'><si xmlns='http://jabber.org/protocol/si'><feature xmlns='http://jabber.org/protocol/feature-neg'><x xmlns='jabber:x:data' type='submit'><field var='stream-method'><value>http://jabber.org/protocol/ibb</value></field></x></feature></si></iq>");
                    } else if (pl.tagName() == QLatin1String("open")) {
                        peerSend(head + " type='result'/>");
                    } else if (pl.tagName() == QLatin1String("data")) {
                        const int seq = pl.attribute(QStringLiteral("seq")).toInt();
                        if (seq != (expectSeq & 0xffff)) {
                            res.violations.append(Violation { QStringLiteral("sender_sequence"), QStringLiteral("C19:sender_block_out_of_sequence"), QStringLiteral("the sender wrote block seq %1 where %2 was due").arg(seq).arg(expectSeq & 0xffff), 0 });
                        }
                        if (expectSeq == rejectAt) {
                            peerRejected = true;
                            faultFired = true;
                            res.faults[QStringLiteral("receiver_rejects_block")]++;
                            peerSend(head + " type='error'><error type='cancel'><item-not-found xmlns='urn:ietf:params:xml:ns:xmpp-stanzas'/></error></iq>");
                        } else {
                            got += QByteArray::fromBase64(pl.text().toLatin1());
                            if (expectSeq == ackFaultAt && (fault == 7 || fault == 11 || fault == 6)) {
                                // somebody else acknowledges the block (same id) before the receiver does: the sender must wait
                                faultFired = true;
                                res.faults[QStringLiteral("third_party_acknowledges_block")]++;
                                peerSend("<iq id='" + id + "' from='" + wrongSender + "' to='" + to + "' type='result'/>");
                                if (!toPeer.isEmpty()) {
                                    res.violations.append(Violation { QStringLiteral("sender_advanced_on_forged_ack"), QStringLiteral("C19:sender_advanced_on_an_acknowledgement_of_a_third_party"),
                                                                      QStringLiteral("%1 acknowledged block %2; the sender went on without the receiver's acknowledgement").arg(QString::fromLatin1(wrongSender)).arg(expectSeq), 0 });
                                }
                            }
                            peerSend(head + " type='result'/>");
                            if (expectSeq == ackFaultAt && fault == 2) {
                                faultFired = true;
                                res.faults[QStringLiteral("acknowledgement_duplicated")]++;
                                peerSend(head + " type='result'/>");
                            }
                            if (expectSeq == ackFaultAt && fault == 3 && !lastAckedId.isEmpty()) {
                                faultFired = true;
                                res.faults[QStringLiteral("stale_acknowledgement_repeated")]++;
                                peerSend("<iq id='" + lastAckedId + "' from='" + QByteArray(kPeer) + "' to='" + to + "' type='result'/>");
                            }
                            lastAckedId = id;
                        }
                        ++expectSeq;
                    } else if (pl.tagName() == QLatin1String("close")) {
                        peerSawClose = true;
                        peerSend(head + " type='result'/>");
                    }
                }
                settle();
                tr.log(QStringLiteral("sender: finished=%1 error=%2, peer got %3/%4 bytes, close=%5").arg(outFinished).arg(outError).arg(got.size()).arg(size).arg(peerSawClose));
                if (outFinished && outError == QXmppTransferJob::NoError && (got != file || !peerSawClose)) {
                    res.violations.append(Violation { QStringLiteral("sender_success_but_incomplete"), QStringLiteral("C19:sender_reports_success_but_receiver_lacks_bytes:%1").arg(peerRejected ? QStringLiteral("block_rejected") : QStringLiteral("no_fault")),
                                                      QStringLiteral("the sender finished with NoError but the receiver holds %1 of %2 bytes (close seen: %3)").arg(got.size()).arg(size).arg(peerSawClose), 0 });
                }
                if (!peerRejected && (!outFinished || outError != QXmppTransferJob::NoError)) {
                    res.violations.append(Violation { QStringLiteral("fault_free_transfer_failed"), QStringLiteral("C19:fault_free_outgoing_transfer_did_not_succeed"),
                                                      QStringLiteral("no fault was injected, yet the sender ended with finished=%1 error=%2").arg(outFinished).arg(outError), 0 });
                }
                res.nontrivial = nBlocks >= 2 || faultFired;
                res.caseKey = QStringLiteral("t1|%1|%2|%3|%4|%5").arg(block).arg(size).arg(announce).arg(fault).arg(faultAt) + QStringLiteral("|%1").arg(plan.knob(QStringLiteral("who")));
            }
            for (const auto &v : std::as_const(res.violations)) {
                tr.log(QStringLiteral("VIOLATION ") + v.signature);
            }
            res.steps = idNo + 3;
            w.client->disconnectFromServer();
            w.pump(nullptr);
        }
        res.traceHash = tr.hash.value();
        res.trace = tr.lines;
        return res;
    }
    // topology 3: a scripted sender offers the file over a SOCKS5 bytestream (XEP-0065); the receiver's QXmppSocksClient
    // runs on the simulated TCP layer, the scripted stream host speaks SOCKS5 and then delivers the (possibly damaged) bytes
    void runSocks(const Plan &plan, Trace &tr, RunResult &res, SessionWorld &w, const QByteArray &file, const QByteArray &md5, int chunk, int announce, int fault, int faultAt)
    {
        if (m_pathMode && (fault == 9 || fault == 10)) {
            fault = 0;
        }
        TcpNet tcp;
        QObject ctx;
        const bool sizeAnnounced = announce == 0 || announce == 1, hashAnnounced = announce == 0 || announce == 2;
        if (fault == 4 && !hashAnnounced) {
            fault = 0;   // nothing could notice a flipped bit
        }
        if ((fault == 1 || fault == 2 || fault == 3 || fault == 5 || fault == 11) && announce == 3) {
            fault = 0;   // with nothing announced any byte stream that ends is "the file"
        }
        if ((fault == 2 || fault == 3) && !hashAnnounced) {
            fault = 0;   // a raw byte stream has no sequence numbers: without a hash, repeated or swapped bytes of the right total length look like the file
        }
        if (fault == 8) {
            fault = 0;
        }
        w.createClient(QXmppClient::NoExtensions);
        auto *tm = w.client->addNewExtension<QXmppTransferManager>();
        tm->setSupportedMethods(QXmppTransferJob::SocksMethod);
        FaultyBuffer device;
        device.open(QIODevice::ReadWrite);
        QPointer<QXmppTransferJob> job;
        bool jobFinished = false;
        int jobError = -1;
        QObject::connect(tm, &QXmppTransferManager::fileReceived, &ctx, [&](QXmppTransferJob *j) {
            job = j;
            QObject::connect(j, &QXmppTransferJob::finished, &ctx, [&, j] {
                jobFinished = true;
                jobError = (int)j->error();
                tr.log(QStringLiteral("receiver job finished with error %1").arg(jobError));
            });
            acceptJob(j, &device);
        });
        QList<QByteArray> toPeer;
        w.server->onSessionStanza = [&](ServerConn &, const QDomElement &el, const QByteArray &raw) {
            if (el.attribute(QStringLiteral("to")) == QLatin1String(kPeer)) {
                toPeer.append(raw);
                return true;
            }
            return false;
        };
        for (const auto &op : plan.ops) {
            if (op.kind != QLatin1String("transfer")) {
                w.applyCommon(op);
                w.afterStep();
            }
        }
        if (!w.client->isConnected()) {
            res.probes[QStringLiteral("session_not_established")]++;
            return;
        }
        const QByteArray to = w.server->current()->fullJid.toUtf8();
        Prng pr(mix64(plan.seed, 0x50c5));
        const QByteArray sid = "s5b" + QByteArray::number((int)pr.uniform(100000));
        auto peerSend = [&](const QByteArray &xml) {
            if (auto *c = w.server->current()) {
                c->sendStanza(xml);
            }
            w.pump(nullptr);
        };
        auto replyType = [&](const QByteArray &id) -> QString {
            for (int i = 0; i < toPeer.size(); ++i) {
                QDomDocument doc;
                const QDomElement el = simxml::parse(toPeer[i], doc);
                if (el.tagName() == QLatin1String("iq") && el.attribute(QStringLiteral("id")) == QString::fromLatin1(id)) {
                    toPeer.removeAt(i);
                    return el.attribute(QStringLiteral("type"));
                }
            }
            return {};
        };
        if (fault == 9) {
            device.failAt = faultAt % 3;
        } else if (fault == 10) {
            device.shortAt = faultAt % 3;
        }
        QByteArray offer = "<iq type='set' id='si1' from='" + QByteArray(kPeer) + "' to='" + to + "'><si xmlns='http://jabber.org/protocol/si' id='" + sid +
            "' profile='http://jabber.org/protocol/si/profile/file-transfer'><file xmlns='http://jabber.org/protocol/si/profile/file-transfer' name='f.bin'";
        if (sizeAnnounced) {
            offer += " size='" + QByteArray::number(file.size()) + "'";
        }
        if (hashAnnounced) {
            offer += " hash='" + md5.toHex() + "'";
        }
        offer += "/><feature xmlns='http://jabber.org/protocol/feature-neg'><x xmlns='jabber:x:data' type='form'><field var='stream-method' type='list-single'><option><value>http://jabber.org/protocol/bytestreams</value></option></field></x></feature></si></iq>";
        peerSend(offer);
        bool faultFired = false, mustSucceed = true;
        if (replyType("si1") != QLatin1String("result") || !job) {
            res.probes[QStringLiteral("offer_not_accepted")]++;
            return;
        }
        // the stream hosts: with faults 6/7 the first one is useless and the second one must be used
        struct Host {
            QByteArray jid, ip;
            int port;
        };
        QList<Host> hosts = { { "proxy1.example", "10.9.8.1", 7777 } };
        if (fault == 6 || fault == 7 || pr.chance(0.3)) {
            hosts.append({ "proxy2.example", "10.9.8.2", 7778 });
        }
        QByteArray q = "<iq type='set' id='bs1' from='" + QByteArray(kPeer) + "' to='" + to + "'><query xmlns='http://jabber.org/protocol/bytestreams' sid='" + sid + "' mode='tcp'>";
        for (const auto &h : std::as_const(hosts)) {
            q += "<streamhost jid='" + h.jid + "' host='" + h.ip + "' port='" + QByteArray::number(h.port) + "'/>";
        }
        q += "</query></iq>";
        const QByteArray expectHash = simcrypto::hash("SHA1", sid + QByteArray(kPeer) + to).toHex();
        // TCP side: every action is queued and performed by the loop below (never from inside a library call)
        struct Action {
            TcpConn *c;
            int kind;   // 0 resolve connect ok, 1 refuse, 2 deliver, 3 remote close
            QByteArray bytes;
        };
        QList<Action> actions;
        int connectsSeen = 0;
        TcpConn *dataConn = nullptr;
        tcp.onConnectRequested = [&](TcpConn *c) {
            const bool first = connectsSeen++ == 0;
            tr.log(QStringLiteral("tcp: connect requested to %1:%2").arg(c->host).arg(c->port));
            if (first && fault == 6) {
                faultFired = true;
                res.faults[QStringLiteral("first_stream_host_refuses_connection")]++;
                actions.append({ c, 1, {} });
            } else {
                actions.append({ c, 0, {} });
            }
        };
        QMap<TcpConn *, int> socksStep;
        int handshakes = 0;
        tcp.onWrite = [&](TcpConn *c, const QByteArray &b) {
            const int step = socksStep.value(c, 0);
            if (step == 0) {
                if (b != QByteArray("\x05\x01\x00", 3)) {
                    res.violations.append(Violation { QStringLiteral("socks_protocol"), QStringLiteral("C19:socks5_greeting_malformed"), QString::fromLatin1(b.toHex()), 0 });
                }
                socksStep[c] = 1;
                actions.append({ c, 2, QByteArray("\x05\x00", 2) });
            } else if (step == 1) {
                // CONNECT: 05 01 00 03 <len> <sha1 hex of sid+initiator+target> 00 00
                const QByteArray want = QByteArray("\x05\x01\x00\x03", 4) + (char)expectHash.size() + expectHash + QByteArray(2, '\0');
                if (b != want) {
                    res.violations.append(Violation { QStringLiteral("socks_protocol"), QStringLiteral("C19:socks5_connect_request_not_as_specified"), QStringLiteral("got %1, XEP-0065 prescribes %2").arg(QString::fromLatin1(b.toHex()), QString::fromLatin1(want.toHex())), 0 });
                }
                socksStep[c] = 2;
                const bool fail = (handshakes++ == 0 && fault == 7);
                if (fail) {
                    faultFired = true;
                    res.faults[QStringLiteral("first_stream_host_answers_connect_with_failure")]++;
                    actions.append({ c, 2, QByteArray("\x05\x01\x00\x03", 4) + (char)expectHash.size() + expectHash + QByteArray(2, '\0') });
                } else {
                    actions.append({ c, 2, QByteArray("\x05\x00\x00\x03", 4) + (char)expectHash.size() + expectHash + QByteArray(2, '\0') });
                    dataConn = c;
                }
            }
        };
        peerSend(q);
        bool streamed = false;
        for (int guard = 0; guard < 400; ++guard) {
            w.pump(nullptr);
            if (!actions.isEmpty()) {
                const Action a = actions.takeFirst();
                switch (a.kind) {
                case 0: tcp.resolveConnect(a.c, true); break;
                case 1: tcp.resolveConnect(a.c, false); break;
                case 2: tcp.deliver(a.c, a.bytes); break;
                default: tcp.remoteClose(a.c);
                }
                settle();
                continue;
            }
            if (!streamed && dataConn && replyType("bs1") == QLatin1String("result")) {
                // the receiver told the sender which stream host it uses: the bytes flow
                streamed = true;
                QList<QByteArray> chunks;
                for (int i = 0; i < file.size(); i += chunk) {
                    chunks.append(file.mid(i, chunk));
                }
                const int n = chunks.size();
                const int at = n ? faultAt % n : 0;
                if (n > 0) {
                    switch (fault) {
                    case 1: chunks.removeAt(at); faultFired = true; mustSucceed = false; res.faults[QStringLiteral("bytes_missing_from_stream")]++; break;
                    case 2: chunks.insert(at, chunks[at]); faultFired = true; mustSucceed = false; res.faults[QStringLiteral("bytes_repeated_in_stream")]++; break;
                    case 3:
                        if (n >= 2 && chunks[std::min(at, n - 2)] != chunks[std::min(at, n - 2) + 1]) {
                            chunks.swapItemsAt(std::min(at, n - 2), std::min(at, n - 2) + 1);
                            faultFired = true;
                            mustSucceed = false;
                            res.faults[QStringLiteral("stream_chunks_swapped")]++;
                        }
                        break;
                    case 4: {
                        QByteArray &c = chunks[at];
                        c[0] = c[0] ^ 0x10;
                        faultFired = true;
                        mustSucceed = false;
                        res.faults[QStringLiteral("stream_bit_flipped")]++;
                        break;
                    }
                    case 5:
                        while (chunks.size() > at) {
                            chunks.removeLast();
                        }
                        faultFired = true;
                        mustSucceed = false;
                        res.faults[QStringLiteral("stream_closed_early")]++;
                        break;
                    case 11:
                        chunks.append(pr.bytes((int)pr.range(1, 64)));
                        faultFired = true;
                        mustSucceed = false;
                        res.faults[QStringLiteral("surplus_bytes_after_the_file")]++;
                        break;
                    default: break;
                    }
                }
                if (fault == 9 || fault == 10) {
                    faultFired = n > 0;
                    mustSucceed = n == 0;
                    res.faults[fault == 9 ? QStringLiteral("device_write_error") : QStringLiteral("device_short_write")]++;
                }
                for (const auto &c : std::as_const(chunks)) {
                    actions.append({ dataConn, 2, c });
                }
                actions.append({ dataConn, 3, {} });
                continue;
            }
            // a stream host that never answers is given up after the library's own timeout
            if (!streamed && !jobFinished && !w.fireNextTimer(8000)) {
                break;
            }
            if (streamed || jobFinished) {
                break;
            }
        }
        w.pump(nullptr);
        settle();
        if (job && jobFinished && job->error() == QXmppTransferJob::NoError) {
            jobError = (int)QXmppTransferJob::NoError;
        }
        loadPath(device.data);
        const bool exact = device.data == file;
        tr.log(QStringLiteral("socks5 receiver: finished=%1 error=%2 received=%3/%4 exact=%5 (fault %6)").arg(jobFinished).arg(jobError).arg(device.data.size()).arg(file.size()).arg(exact).arg(fault));
        if (jobFinished && jobError == QXmppTransferJob::NoError && !exact) {
            res.violations.append(Violation { QStringLiteral("success_with_wrong_bytes"), QStringLiteral("C19:receiver_reports_success_but_copy_differs:socks5:fault%1:%2").arg(fault).arg(QLatin1String(announceNames[announce & 3])),
                                              QStringLiteral("SOCKS5 bytestream: the receiver finished with NoError but holds %1 bytes that differ from the %2 bytes sent (fault %3 at chunk %4 of size %5, announced: %6)").arg(device.data.size()).arg(file.size()).arg(fault).arg(faultAt).arg(chunk).arg(QLatin1String(announceNames[announce & 3])), 0 });
        }
        if (mustSucceed && (!jobFinished || jobError != QXmppTransferJob::NoError || !exact)) {
            res.violations.append(Violation { QStringLiteral("fault_free_transfer_failed"), QStringLiteral("C19:socks5_transfer_without_data_fault_did_not_succeed:fault%1").arg(fault),
                                              QStringLiteral("SOCKS5 bytestream, no fault on the data (fault kind %1): finished=%2 error=%3, %4/%5 bytes").arg(fault).arg(jobFinished).arg(jobError).arg(device.data.size()).arg(file.size()), 0 });
        }
        for (const auto &v : std::as_const(res.violations)) {
            tr.log(QStringLiteral("VIOLATION ") + v.signature);
        }
        res.nontrivial = faultFired || file.size() > chunk;
        res.steps = 5 + tcp.conns.size();
        res.caseKey = QStringLiteral("t3|%1|%2|%3|%4|%5").arg(chunk).arg(file.size()).arg(announce).arg(fault).arg(faultAt);
        tcp.onWrite = nullptr;
        tcp.onConnectRequested = nullptr;
        w.client->disconnectFromServer();
        w.pump(nullptr);
        delete w.client;
        w.client = nullptr;
        settle();
    }

    // topology 2: two real clients, each with a real transfer manager and its own scripted server; the servers relay the
    // stanzas addressed to the other account, and the relay is where the faults happen
    void runTwoClients(const Plan &plan, Trace &tr, RunResult &res, SessionWorld &wa, const QByteArray &file, const QByteArray &md5, int nBlocks, int announce, int fault, int faultAt)
    {
        if (m_pathMode && (fault == 9 || fault == 10)) {
            fault = 0;
        }
        Plan planB = plan;
        planB.sknobs[QStringLiteral("user")] = QStringLiteral("bob");
        planB.sknobs[QStringLiteral("resource")] = QStringLiteral("desk");
        planB.knobs[QStringLiteral("otherJid")] = 0;
        SessionWorld wb(planB, tr, res);
        QObject ctx;
        wa.createClient(QXmppClient::NoExtensions);
        wb.createClient(QXmppClient::NoExtensions);
        auto *tmA = wa.client->addNewExtension<QXmppTransferManager>();
        auto *tmB = wb.client->addNewExtension<QXmppTransferManager>();
        tmA->setSupportedMethods(QXmppTransferJob::InBandMethod);
        tmB->setSupportedMethods(QXmppTransferJob::InBandMethod);
        FaultyBuffer sink;
        sink.open(QIODevice::ReadWrite);
        bool inFinished = false, outFinished = false;
        int inError = -1, outError = -1;
        QPointer<QXmppTransferJob> inJob;
        QObject::connect(tmB, &QXmppTransferManager::fileReceived, &ctx, [&](QXmppTransferJob *j) {
            inJob = j;
            QObject::connect(j, &QXmppTransferJob::finished, &ctx, [&, j] {
                inFinished = true;
                inError = (int)j->error();
            });
            acceptJob(j, &sink);
        });
        struct Relayed {
            int dir;   // 0: A -> B, 1: B -> A
            QByteArray xml;
        };
        QList<Relayed> inTransit;
        QString fullA, fullB;
        auto hook = [&](int dir, const QString &peerFull) {
            return [&, dir, peerFull](ServerConn &c, const QDomElement &el, const QByteArray &raw) {
                Q_UNUSED(peerFull);
                const QString to = el.attribute(QStringLiteral("to"));
                if (to == (dir == 0 ? fullB : fullA) && !to.isEmpty()) {
                    // the server stamps the sender's address
                    QByteArray x = raw;
                    const QByteArray stamp = " from='" + c.fullJid.toUtf8() + "'";
                    const int sp = x.indexOf(' ');
                    if (!x.contains(" from=") && sp > 0) {
                        x.insert(sp, stamp);
                    }
                    inTransit.append({ dir, x });
                    return true;
                }
                return false;
            };
        };
        for (const auto &op : plan.ops) {
            if (op.kind != QLatin1String("transfer")) {
                wa.applyCommon(op);
                wb.applyCommon(op);
            }
        }
        if (!wa.client->isConnected() || !wb.client->isConnected()) {
            res.probes[QStringLiteral("session_not_established")]++;
            return;
        }
        fullA = wa.server->current()->fullJid;
        fullB = wb.server->current()->fullJid;
        wa.server->onSessionStanza = hook(0, fullB);
        wb.server->onSessionStanza = hook(1, fullA);
        QBuffer src;
        src.setData(file);
        src.open(QIODevice::ReadOnly);
        QXmppTransferFileInfo info;
        info.setName(QStringLiteral("f.bin"));
        if (announce == 0 || announce == 1) {
            info.setSize(file.size());
        }
        if (announce == 0 || announce == 2) {
            info.setHash(md5);
        }
        QXmppTransferJob *out = tmA->sendFile(fullB, &src, info);
        QObject::connect(out, &QXmppTransferJob::finished, &ctx, [&] {
            outFinished = true;
            outError = (int)out->error();
        });
        const int at = nBlocks ? faultAt % nBlocks : 0;
        int dataSeen = 0, ackSeen = 0;
        bool faultFired = false;
        const bool hashAnnounced = announce == 0 || announce == 2;
        for (int guard = 0; guard < 4000; ++guard) {
            wa.pump(nullptr);
            wb.pump(nullptr);
            if (inTransit.isEmpty()) {
                break;
            }
            Relayed r = inTransit.takeFirst();
            const bool isData = r.dir == 0 && r.xml.contains("<data ");
            const bool isAck = r.dir == 1 && r.xml.contains("type=\"result\"") && !r.xml.contains("<si ");
            bool drop = false, twice = false;
            if (isData) {
                if (dataSeen == at) {
                    if (fault == 1) {
                        drop = true;
                        res.faults[QStringLiteral("relay_drops_block")]++;
                    } else if (fault == 2) {
                        twice = true;
                        res.faults[QStringLiteral("relay_duplicates_block")]++;
                    } else if (fault == 4 && hashAnnounced) {
                        const int p0 = r.xml.indexOf('>', r.xml.indexOf("<data ")) + 1;
                        if (p0 > 0 && p0 < r.xml.size() - 8) {
                            r.xml[p0] = r.xml[p0] == 'A' ? 'B' : 'A';   // another base64 symbol: other bytes
                            res.faults[QStringLiteral("relay_alters_block")]++;
                            faultFired = true;
                        }
                    } else if (fault == 8) {
                        wa.cutLink();
                        res.faults[QStringLiteral("link_cut_mid_transfer")]++;
                        faultFired = true;
                    }
                }
                ++dataSeen;
            } else if (isAck) {
                if (ackSeen == at + 2 && fault == 5) {   // +2: the answers to the offer and to <open/>
                    drop = true;
                    res.faults[QStringLiteral("relay_drops_acknowledgement")]++;
                }
                ++ackSeen;
            }
            faultFired = faultFired || drop || twice;
            if (drop) {
                continue;
            }
            for (int n = 0; n < (twice ? 2 : 1); ++n) {
                if (auto *c = (r.dir == 0 ? wb : wa).server->current()) {
                    c->sendStanza(r.xml);
                }
            }
        }
        settle();
        if (inJob && inFinished && (int)inJob->error() != inError && inJob->error() == QXmppTransferJob::NoError) {
            inError = (int)QXmppTransferJob::NoError;
        }
        loadPath(sink.data);
        const bool exact = sink.data == file;
        tr.log(QStringLiteral("two clients: sender finished=%1 error=%2, receiver finished=%3 error=%4 got %5/%6 exact=%7").arg(outFinished).arg(outError).arg(inFinished).arg(inError).arg(sink.data.size()).arg(file.size()).arg(exact));
        if (inFinished && inError == QXmppTransferJob::NoError && !exact) {
            res.violations.append(Violation { QStringLiteral("success_with_wrong_bytes"), QStringLiteral("C19:receiver_reports_success_but_copy_differs:two_clients:fault%1").arg(fault),
                                              QStringLiteral("two real clients: the receiver finished with NoError but holds %1 bytes that differ from the %2 bytes sent (relay fault %3 at block %4)").arg(sink.data.size()).arg(file.size()).arg(fault).arg(at), 0 });
        }
        if (!faultFired && (!inFinished || !outFinished || inError != QXmppTransferJob::NoError || outError != QXmppTransferJob::NoError || !exact)) {
            res.violations.append(Violation { QStringLiteral("fault_free_transfer_failed"), QStringLiteral("C19:fault_free_transfer_between_two_clients_did_not_succeed"),
                                              QStringLiteral("no fault was injected, yet sender finished=%1 error=%2, receiver finished=%3 error=%4, %5/%6 bytes, exact=%7").arg(outFinished).arg(outError).arg(inFinished).arg(inError).arg(sink.data.size()).arg(file.size()).arg(exact), 0 });
        }
        for (const auto &v : std::as_const(res.violations)) {
            tr.log(QStringLiteral("VIOLATION ") + v.signature);
        }
        res.nontrivial = faultFired || nBlocks >= 2;
        res.steps = dataSeen + ackSeen + 3;
        res.caseKey = QStringLiteral("t2|%1|%2|%3|%4").arg(file.size()).arg(announce).arg(fault).arg(faultAt);
        wa.client->disconnectFromServer();
        wb.client->disconnectFromServer();
        wa.pump(nullptr);
        wb.pump(nullptr);
    }

    // topology 4: two real clients, SOCKS5 bytestream through a mediating proxy (XEP-0065 §6.3): the sending manager is
    // configured with a proxy and "proxy only", both sides reach the scripted proxy through the library's QXmppSocksClient on
    // the simulated TCP layer (buffered mode: bytesToWrite/bytesWritten behave as with a kernel socket), the proxy pairs the
    // two connections by the SHA-1 host name, is activated by the sender and relays the byte stream with faults.
    void runSocksProxy(const Plan &plan, Trace &tr, RunResult &res, SessionWorld &wa, const QByteArray &file, const QByteArray &md5, int chunk, int announce, int fault, int faultAt)
    {
        if (m_pathMode && (fault == 9 || fault == 10)) {
            fault = 0;
        }
        TcpNet tcp;
        tcp.buffered = true;
        Plan planB = plan;
        planB.sknobs[QStringLiteral("user")] = QStringLiteral("bob");
        planB.sknobs[QStringLiteral("resource")] = QStringLiteral("desk");
        planB.knobs[QStringLiteral("otherJid")] = 0;
        SessionWorld wb(planB, tr, res);
        QObject ctx;
        // QXmppTransferFileInfo cannot announce a size of zero (0 means "unknown")
        if (file.isEmpty()) {
            announce = announce == 0 ? 2 : (announce == 1 ? 3 : announce);
        }
        const bool sizeAnnounced = announce == 0 || announce == 1, hashAnnounced = announce == 0 || announce == 2;
        if (fault == 4 && !hashAnnounced) {
            fault = 0;
        }
        if ((fault == 1 || fault == 2 || fault == 3 || fault == 5 || fault == 11) && announce == 3) {
            fault = 0;   // with nothing announced any byte stream that ends is "the file"
        }
        if ((fault == 2 || fault == 3) && !hashAnnounced) {
            fault = 0;   // no sequence numbers in a raw byte stream
        }
        if (fault == 8) {
            fault = 0;
        }
        if (file.isEmpty() && (fault >= 1 && fault <= 5)) {
            fault = 0;
        }
        static const char *kProxy = "proxy.example";
        wa.createClient(QXmppClient::NoExtensions);
        wb.createClient(QXmppClient::NoExtensions);
        auto *tmA = wa.client->addNewExtension<QXmppTransferManager>();
        auto *tmB = wb.client->addNewExtension<QXmppTransferManager>();
        tmA->setSupportedMethods(QXmppTransferJob::SocksMethod);
        tmB->setSupportedMethods(QXmppTransferJob::SocksMethod);
        tmA->setProxy(QString::fromLatin1(kProxy));
        tmA->setProxyOnly(true);
        FaultyBuffer sink;
        sink.open(QIODevice::ReadWrite);
        if (fault == 9) {
            sink.failAt = faultAt % 3;
        } else if (fault == 10) {
            sink.shortAt = faultAt % 3;
        }
        bool inFinished = false, outFinished = false;
        int inError = -1, outError = -1;
        QPointer<QXmppTransferJob> inJob;
        QObject::connect(tmB, &QXmppTransferManager::fileReceived, &ctx, [&](QXmppTransferJob *j) {
            inJob = j;
            QObject::connect(j, &QXmppTransferJob::finished, &ctx, [&, j] {
                inFinished = true;
                inError = (int)j->error();
                tr.log(QStringLiteral("receiver job finished with error %1").arg(inError));
            });
            acceptJob(j, &sink);
        });
        struct Relayed {
            int dir;   // 0: A -> B, 1: B -> A, 2: proxy -> A
            QByteArray xml;
        };
        QList<Relayed> inTransit;
        QString fullA, fullB;
        QString sidSeen;
        bool activated = false;
        auto hook = [&](int dir) {
            return [&, dir](ServerConn &c, const QDomElement &el, const QByteArray &raw) {
                const QString to = el.attribute(QStringLiteral("to"));
                if (dir == 0 && to == QLatin1String(kProxy)) {
                    // the proxy's XMPP side: address query and activation
                    const QDomElement q = el.firstChildElement(QStringLiteral("query"));
                    const QByteArray id = el.attribute(QStringLiteral("id")).toUtf8();
                    const QByteArray head = "<iq from='" + QByteArray(kProxy) + "' to='" + c.fullJid.toUtf8() + "' id='" + id + "' ";
                    if (el.attribute(QStringLiteral("type")) == QLatin1String("get")) {
                        sidSeen = q.attribute(QStringLiteral("sid"));
                        inTransit.append({ 2, head + "type='result'><query xmlns='http://jabber.org/protocol/bytestreams'><streamhost jid='" + QByteArray(kProxy) + "' host='10.9.8.1' port='7777'/></query></iq>" });
                    } else if (!q.firstChildElement(QStringLiteral("activate")).isNull()) {
                        if (fault == 7) {
                            res.faults[QStringLiteral("proxy_refuses_activation")]++;
                            inTransit.append({ 2, head + "type='error'><error type='cancel'><item-not-found xmlns='urn:ietf:params:xml:ns:xmpp-stanzas'/></error></iq>" });
                        } else {
                            activated = true;
                            inTransit.append({ 2, head + "type='result'/>" });
                        }
                    }
                    return true;
                }
                if (to == (dir == 0 ? fullB : fullA) && !to.isEmpty()) {
                    QByteArray x = raw;
                    const QByteArray stamp = " from='" + c.fullJid.toUtf8() + "'";
                    const int sp = x.indexOf(' ');
                    if (!x.contains(" from=") && sp > 0) {
                        x.insert(sp, stamp);
                    }
                    inTransit.append({ dir, x });
                    return true;
                }
                return false;
            };
        };
        for (const auto &op : plan.ops) {
            if (op.kind != QLatin1String("transfer")) {
                wa.applyCommon(op);
                wb.applyCommon(op);
            }
        }
        if (!wa.client->isConnected() || !wb.client->isConnected()) {
            res.probes[QStringLiteral("session_not_established")]++;
            return;
        }
        fullA = wa.server->current()->fullJid;
        fullB = wb.server->current()->fullJid;
        wa.server->onSessionStanza = hook(0);
        wb.server->onSessionStanza = hook(1);
        QBuffer src;
        src.setData(file);
        src.open(QIODevice::ReadOnly);
        QXmppTransferFileInfo info;
        info.setName(QStringLiteral("f.bin"));
        if (sizeAnnounced) {
            info.setSize(file.size());
        }
        if (hashAnnounced) {
            info.setHash(md5);
        }
        QXmppTransferJob *out = tmA->sendFile(fullB, &src, info);
        QObject::connect(out, &QXmppTransferJob::finished, &ctx, [&] {
            outFinished = true;
            outError = (int)out->error();
            tr.log(QStringLiteral("sender job finished with error %1").arg(outError));
        });
        // the proxy's TCP side
        struct Side {
            TcpConn *c = nullptr;
            int step = 0;          // 0 greeting expected, 1 CONNECT expected, 2 established
            QByteArray buf;        // handshake bytes received so far
            QByteArray hostName;   // from CONNECT
        };
        QList<Side> sides;
        struct Action {
            TcpConn *c;
            int kind;   // 0 accept, 1 refuse, 2 deliver, 3 close
            QByteArray bytes;
        };
        QList<Action> actions;
        QByteArray fromS;       // payload the sender's side has put on the wire
        bool sClosed = false;   // the sender closed its connection
        int toR = 0;            // bytes of the (transformed) stream handed to the receiver's connection so far
        bool proxyDied = false, rClosedByProxy = false;
        bool faultFired = false, dataFault = false;
        Prng pr(mix64(plan.seed, 0x50c6));
        auto sideOf = [&](TcpConn *c) -> Side * {
            for (auto &s : sides) {
                if (s.c == c) {
                    return &s;
                }
            }
            return nullptr;
        };
        auto isSenderConn = [&](TcpConn *c) {
            auto *j = c->sock ? qobject_cast<QXmppTransferJob *>(c->sock->parent()) : nullptr;
            return j && j->direction() == QXmppTransferJob::OutgoingDirection;
        };
        Side *S = nullptr, *R = nullptr;
        auto refreshSides = [&] {
            S = R = nullptr;
            for (auto &s : sides) {
                if (s.step == 2) {
                    (isSenderConn(s.c) ? S : R) = &s;
                }
            }
        };
        int connects = 0;
        tcp.onConnectRequested = [&](TcpConn *c) {
            tr.log(QStringLiteral("tcp: connect requested to %1:%2 by the %3").arg(c->host).arg(c->port).arg(isSenderConn(c) ? QStringLiteral("sender") : QStringLiteral("receiver")));
            ++connects;
            if (c->host != QLatin1String("10.9.8.1") || c->port != 7777) {
                res.violations.append(Violation { QStringLiteral("socks_protocol"), QStringLiteral("C19:connection_to_an_address_nobody_offered"), QStringLiteral("%1:%2").arg(c->host).arg(c->port), 0 });
            }
            if (fault == 6 && isSenderConn(c)) {
                faultFired = true;
                res.faults[QStringLiteral("proxy_refuses_the_senders_connection")]++;
                actions.append({ c, 1, {} });
                return;
            }
            Side s;
            s.c = c;
            sides.append(s);
            actions.append({ c, 0, {} });
        };
        tcp.onWire = [&](TcpConn *c, const QByteArray &b) {
            Side *s = sideOf(c);
            if (!s) {
                return;
            }
            if (s->step == 2) {
                if (isSenderConn(c)) {
                    fromS += b;
                } else if (!b.isEmpty()) {
                    res.violations.append(Violation { QStringLiteral("socks_protocol"), QStringLiteral("C19:receiver_writes_into_the_bytestream"), QString::fromLatin1(b.left(16).toHex()), 0 });
                }
                return;
            }
            s->buf += b;
            if (s->step == 0 && s->buf.size() >= 3) {
                if (s->buf.left(3) != QByteArray("\x05\x01\x00", 3)) {
                    res.violations.append(Violation { QStringLiteral("socks_protocol"), QStringLiteral("C19:socks5_greeting_malformed"), QString::fromLatin1(s->buf.toHex()), 0 });
                }
                s->buf.remove(0, 3);
                s->step = 1;
                actions.append({ c, 2, QByteArray("\x05\x00", 2) });
            }
            if (s->step == 1 && s->buf.size() >= 5 && s->buf.size() >= 7 + (uchar)s->buf[4]) {
                const int n = (uchar)s->buf[4];
                s->hostName = s->buf.mid(5, n);
                const QByteArray want = QByteArray("\x05\x01\x00\x03", 4) + (char)n + s->hostName + QByteArray(2, '\0');
                if (s->buf.left(7 + n) != want) {
                    res.violations.append(Violation { QStringLiteral("socks_protocol"), QStringLiteral("C19:socks5_connect_request_not_as_specified"), QString::fromLatin1(s->buf.toHex()), 0 });
                }
                const QByteArray expect = simcrypto::hash("SHA1", sidSeen.toUtf8() + fullA.toUtf8() + fullB.toUtf8()).toHex();
                if (s->hostName != expect) {
                    res.violations.append(Violation { QStringLiteral("socks_protocol"), QStringLiteral("C19:socks5_host_name_is_not_sha1_of_sid_initiator_target:%1").arg(isSenderConn(c) ? QStringLiteral("sender") : QStringLiteral("receiver")),
                                                      QStringLiteral("got %1, XEP-0065 prescribes %2").arg(QString::fromLatin1(s->hostName), QString::fromLatin1(expect)), 0 });
                }
                s->buf.remove(0, 7 + n);
                s->step = 2;
                actions.append({ c, 2, QByteArray("\x05\x00\x00\x03", 4) + (char)n + s->hostName + QByteArray(2, '\0') });
                if (!s->buf.isEmpty() && isSenderConn(c)) {
                    fromS += s->buf;
                }
            }
        };
        tcp.onLocalClose = [&](TcpConn *c) {
            tr.log(QStringLiteral("tcp: %1 closed its connection").arg(isSenderConn(c) ? QStringLiteral("sender") : QStringLiteral("receiver")));
            if (isSenderConn(c)) {
                sClosed = true;
            }
        };
        // the byte stream the proxy hands on: the sender's bytes with the fault applied at byte offset `off`
        const int span = std::max(1, std::min(chunk, std::max(1, file.size() / 2)));
        const int off = file.isEmpty() ? 0 : (int)((qint64)faultAt * 977 % file.size());
        auto transformed = [&](bool final) -> QByteArray {
            QByteArray t = fromS;
            const bool reach = fromS.size() >= off + 2 * span || final;
            if (fault >= 1 && fault <= 4 && fromS.size() > off && !reach) {
                return t.left(off);   // hold back until the affected region is complete
            }
            if (fromS.size() <= off) {
                if (fault == 11 && final) {
                    dataFault = true;
                    return t + Prng(mix64(plan.seed, 11)).bytes(1 + (int)(plan.seed % 40));
                }
                return t;
            }
            switch (fault) {
            case 1:
                t.remove(off, span);
                dataFault = true;
                break;
            case 2:
                t.insert(off, fromS.mid(off, span));
                dataFault = true;
                break;
            case 3: {
                const QByteArray a = fromS.mid(off, span), b = fromS.mid(off + span, span);
                if (!b.isEmpty() && a != b) {
                    t = fromS.left(off) + b + a + fromS.mid(off + a.size() + b.size());
                    dataFault = true;
                }
                break;
            }
            case 4:
                t[off] = t[off] ^ 0x20;
                dataFault = true;
                break;
            case 5:
                t = t.left(off);
                break;
            case 11:
                if (final) {
                    dataFault = true;
                    t += Prng(mix64(plan.seed, 11)).bytes(1 + (int)(plan.seed % 40));
                }
                break;
            default: break;
            }
            return t;
        };
        int steps = 0;
        for (int guard = 0; guard < 20000; ++guard) {
            wa.pump(nullptr);
            wb.pump(nullptr);
            settle();
            refreshSides();
            // fault 5: the proxy dies once `off` bytes have passed
            if (fault == 5 && !proxyDied && S && R && fromS.size() > off && toR >= off) {
                proxyDied = true;
                faultFired = dataFault = true;
                res.faults[QStringLiteral("proxy_dies_mid_stream")]++;
                actions.append({ R->c, 3, {} });
                actions.append({ S->c, 3, {} });
                rClosedByProxy = true;
            }
            // hand bytes on to the receiver
            if (S && R && activated && !proxyDied && !rClosedByProxy) {
                const QByteArray t = transformed(sClosed);
                if (t.size() > toR) {
                    const int n = (int)pr.range(1, std::max(1, std::min(t.size() - toR, 3 * chunk)));
                    actions.append({ R->c, 2, t.mid(toR, n) });
                    toR += n;
                } else if (sClosed && actions.isEmpty()) {
                    actions.append({ R->c, 3, {} });
                    rClosedByProxy = true;
                }
            }
            // a sender that could not reach the proxy (or was refused activation) never streams: the proxy drops the receiver's idle connection
            if ((fault == 6 || fault == 7) && outFinished && R && !rClosedByProxy && actions.isEmpty()) {
                actions.append({ R->c, 3, {} });
                rClosedByProxy = true;
            }
            QVector<int> enabled;   // 0 relay a stanza, 1 proxy action, 2.. drain connection k-2
            if (!inTransit.isEmpty()) {
                enabled << 0;
            }
            if (!actions.isEmpty()) {
                enabled << 1;
            }
            for (int i = 0; i < tcp.conns.size(); ++i) {
                if (!tcp.conns[i]->outbox.isEmpty() && tcp.conns[i]->up) {
                    enabled << 2 + i;
                }
            }
            if (enabled.isEmpty()) {
                if (inFinished && outFinished) {
                    break;
                }
                const bool a = wa.fireNextTimer(20000), b = a ? false : wb.fireNextTimer(20000);
                if (!a && !b) {
                    break;
                }
                continue;
            }
            ++steps;
            const int pickd = enabled[(int)pr.uniform((quint64)enabled.size())];
            if (pickd == 0) {
                const Relayed r = inTransit.takeFirst();
                if (auto *c = (r.dir == 0 ? wb : wa).server->current()) {
                    c->sendStanza(r.xml);
                }
            } else if (pickd == 1) {
                const Action a = actions.takeFirst();
                switch (a.kind) {
                case 0: tcp.resolveConnect(a.c, true); break;
                case 1: tcp.resolveConnect(a.c, false); break;
                case 2: tcp.deliver(a.c, a.bytes); break;
                default: tcp.remoteClose(a.c);
                }
            } else {
                TcpConn *c = tcp.conns[pickd - 2];
                tcp.drain(c, (int)pr.range(1, std::max(1, std::min(c->outbox.size(), 4 * chunk + 8))));
            }
        }
        wa.pump(nullptr);
        wb.pump(nullptr);
        settle();
        if (inJob && inFinished && inJob->error() == QXmppTransferJob::NoError) {
            inError = (int)QXmppTransferJob::NoError;
        }
        if (fault == 9 || fault == 10) {
            faultFired = dataFault = !file.isEmpty();
            res.faults[fault == 9 ? QStringLiteral("device_write_error") : QStringLiteral("device_short_write")]++;
        }
        if (dataFault) {
            faultFired = true;
            static const char *names[] = { "", "proxy_loses_bytes", "proxy_repeats_bytes", "proxy_swaps_bytes", "proxy_flips_bit", "proxy_dies_mid_stream", "", "", "", "", "", "proxy_appends_bytes" };
            if (fault >= 1 && fault <= 4) {
                res.faults[QString::fromLatin1(names[fault])]++;
            } else if (fault == 11) {
                res.faults[QString::fromLatin1(names[11])]++;
            }
        }
        if (fault == 7) {
            faultFired = true;
        }
        loadPath(sink.data);
        const bool exact = sink.data == file;
        tr.log(QStringLiteral("socks5 via proxy: sender finished=%1 error=%2 wrote %3, receiver finished=%4 error=%5 got %6/%7 exact=%8 (fault %9)")
                   .arg(outFinished).arg(outError).arg(fromS.size()).arg(inFinished).arg(inError).arg(sink.data.size()).arg(file.size()).arg(exact).arg(fault));
        // a stream that ends without a byte after the sender never got through is, with nothing announced, an empty file for the receiver
        const bool undetectable = announce == 3 && (fault == 6 || fault == 7);
        if (inFinished && inError == QXmppTransferJob::NoError && !exact && !undetectable) {
            res.violations.append(Violation { QStringLiteral("success_with_wrong_bytes"), QStringLiteral("C19:receiver_reports_success_but_copy_differs:socks5_proxy:fault%1:%2").arg(fault).arg(QLatin1String(announceNames[announce & 3])),
                                              QStringLiteral("SOCKS5 through a proxy, two real clients: the receiver finished with NoError but holds %1 bytes that differ from the %2 bytes sent (fault %3 at offset %4, span %5, announced: %6)").arg(sink.data.size()).arg(file.size()).arg(fault).arg(off).arg(span).arg(QLatin1String(announceNames[announce & 3])), 0 });
        }
        if (outFinished && outError == QXmppTransferJob::NoError && fromS != file) {
            res.violations.append(Violation { QStringLiteral("success_with_wrong_bytes"), QStringLiteral("C19:sender_reports_success_without_having_sent_the_file:socks5_proxy:fault%1:%2").arg(fault).arg(QLatin1String(announceNames[announce & 3])),
                                              QStringLiteral("SOCKS5 through a proxy: the sender finished with NoError but put %1 bytes on its connection that differ from the %2 bytes of the file (fault %3)").arg(fromS.size()).arg(file.size()).arg(fault), 0 });
        }
        if (!faultFired && (!inFinished || !outFinished || inError != QXmppTransferJob::NoError || outError != QXmppTransferJob::NoError || !exact)) {
            res.violations.append(Violation { QStringLiteral("fault_free_transfer_failed"), QStringLiteral("C19:fault_free_socks5_transfer_through_proxy_did_not_succeed"),
                                              QStringLiteral("no fault was injected, yet sender finished=%1 error=%2, receiver finished=%3 error=%4, %5/%6 bytes, exact=%7").arg(outFinished).arg(outError).arg(inFinished).arg(inError).arg(sink.data.size()).arg(file.size()).arg(exact), 0 });
        }
        for (const auto &v : std::as_const(res.violations)) {
            tr.log(QStringLiteral("VIOLATION ") + v.signature);
        }
        res.nontrivial = faultFired || file.size() > chunk;
        res.steps = steps + 3;
        res.caseKey = QStringLiteral("t4|%1|%2|%3|%4|%5").arg(chunk).arg(file.size()).arg(announce).arg(fault).arg(faultAt % 7);
        tcp.onWire = nullptr;
        tcp.onConnectRequested = nullptr;
        tcp.onLocalClose = nullptr;
        wa.client->disconnectFromServer();
        wb.client->disconnectFromServer();
        wa.pump(nullptr);
        wb.pump(nullptr);
        delete wa.client;
        wa.client = nullptr;
        delete wb.client;
        wb.client = nullptr;
        settle();
    }

    bool removable(const Plan &, int) override { return false; }
    QVector<Plan> simplerKnobs(const Plan &p) override
    {
        QVector<Plan> out;
        auto with = [&](const char *k, qint64 v) {
            if (p.knob(QString::fromLatin1(k)) != v) {
                Plan q = p;
                q.knobs[QString::fromLatin1(k)] = v;
                out << q;
            }
        };
        with("sm", 0);
        if (p.knob(QStringLiteral("size")) > 8) {
            with("size", p.knob(QStringLiteral("size")) / 2);
        }
        if (p.knob(QStringLiteral("block")) > 4) {
            with("block", 4);
        }
        with("faultAt", 0);
        with("onError", 0);
        return out;
    }
};

static EngineRegistrar reg(new C19Engine);

}  // namespace
