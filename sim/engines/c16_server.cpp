// C16 — the server routes only for authenticated clients and stamps their true address.
#include "core/engine.h"
#include "net/simsocket.h"
#include "peers/crypto.h"
#include "peers/xmlutil.h"

#include "QXmppIncomingClient.h"
#include "QXmppLogger.h"
#include "QXmppPasswordChecker.h"
#include "QXmppServer.h"

#include <QPointer>

using namespace sim;

namespace {

static const char *kUsers[] = { "alice", "bob", "mallory", "ghost", "Alice" };   // "ghost" is not known to the password checker; "Alice" is an account of its own (the checker tells names apart by case)
static const int kKnownUsers[] = { 0, 1, 2, 4 };
static const char *kPasswords[] = { "alice-secret", "bob-secret", "mallory-secret", "", "capital-secret" };

struct PendingReply {
    QPointer<QXmppPasswordReply> reply;
    int conn;        // connection being served when the request was made
    int exchange;    // that connection's exchange number at that time
    QString user;
    bool approves;   // the checker approves exactly (user, password) / knows the user's digest
    bool digest;
};

class SimPasswordChecker : public QXmppPasswordChecker
{
public:
    QList<PendingReply> pending;
    int *currentConn = nullptr;
    QVector<int> *exchangeOf = nullptr;
    bool temporaryErrors = false;

    QXmppPasswordReply *checkPassword(const QXmppPasswordRequest &request) override
    {
        auto *reply = new QXmppPasswordReply;
        bool ok = false;
        for (int i : kKnownUsers) {
            if (request.username() == QLatin1String(kUsers[i]) && request.password() == QLatin1String(kPasswords[i])) {
                ok = true;
            }
        }
        if (!ok) {
            reply->setError(QXmppPasswordReply::AuthorizationError);
        }
        pending.append({ reply, *currentConn, exchangeOf->value(*currentConn), request.username(), ok, false });
        return reply;   // finished later, when the scheduler says so
    }
    QXmppPasswordReply *getDigest(const QXmppPasswordRequest &request) override
    {
        auto *reply = new QXmppPasswordReply;
        bool known = false;
        for (int i : kKnownUsers) {
            if (request.username() == QLatin1String(kUsers[i])) {
                known = true;
                reply->setDigest(simcrypto::hash("MD5", (request.username() + QLatin1Char(':') + request.domain() + QLatin1Char(':') + QLatin1String(kPasswords[i])).toUtf8()));
            }
        }
        if (!known) {
            reply->setError(QXmppPasswordReply::AuthorizationError);
        }
        pending.append({ reply, *currentConn, exchangeOf->value(*currentConn), request.username(), known, true });
        return reply;
    }
    bool hasGetPassword() const override { return true; }
};

// The other flavour: only getPassword() is provided, checkPassword()/getDigest() are the library's own default
// implementations (their replies finish through a zero timer, which the scheduler fires).
class BasePasswordChecker : public QXmppPasswordChecker
{
public:
    std::function<void(const QString &user, const QString &presentedPassword, bool known, const QString &secret)> onLookup;
    QXmppPasswordReply::Error getPassword(const QXmppPasswordRequest &request, QString &password) override
    {
        for (int i : kKnownUsers) {
            if (request.username() == QLatin1String(kUsers[i])) {
                password = QString::fromLatin1(kPasswords[i]);
                if (onLookup) {
                    onLookup(request.username(), request.password(), true, password);
                }
                return QXmppPasswordReply::NoError;
            }
        }
        if (onLookup) {
            onLookup(request.username(), request.password(), false, QString());
        }
        return QXmppPasswordReply::AuthorizationError;
    }
    bool hasGetPassword() const override { return true; }
};

// a client that writes raw bytes and records what it gets back
class RawClient : public LinkEnd
{
public:
    QByteArray inbox;
    simxml::Framer framer;
    QList<QByteArray> elements;   // complete elements received
    bool peerClosed = false;
    void linkDeliver(const QByteArray &b) override
    {
        inbox += b;
        framer.feed(b);
        for (const auto &it : framer.take()) {
            if (it.kind == simxml::Item::Element) {
                elements.append(it.text);
            }
        }
    }
    void linkPeerClosed() override { peerClosed = true; }
    void linkAborted(int) override { peerClosed = true; }
};

struct Conn {
    SimLink link;
    RawClient raw;
    QPointer<SimSslSocket> sock;
    QPointer<QXmppIncomingClient> stream;
    int seen = 0;                  // elements of raw.elements already examined
    // model
    int exchange = 0;              // incremented by every <auth>/<authenticate>
    QString exchangeUser;          // user named in the current exchange (PLAIN) / in the digest response
    QString exchangeMech;
    bool digestResponseValid = false;
    QSet<QString> validDigestUsers;   // users for whom a response computed with their real password was written on this connection
    QSet<QString> approvedUsers;   // users for whom the checker approved the presented credentials on this connection
    bool successSeen = false;
    QString boundJid;              // from the latest bind result the server sent
    QStringList boundJids;         // every address the server bound for this connection
    // what the server has WRITTEN to this connection so far (it may not have been delivered yet): the routing oracle
    // must not depend on the order in which the scheduler delivers to different connections
    bool successWritten = false;
    QStringList boundWritten;
    simxml::Framer writtenFramer;
    QString nonce;                 // DIGEST-MD5 nonce from the server's challenge
    QByteArray outbuf;             // pipelining buffer
    bool pipelining = false;
    bool opened = false;
};

class C16Engine : public Engine
{
public:
    QString property() const override { return QStringLiteral("C16"); }
    QString describe() const override
    {
        return QStringLiteral("real: QXmppServer (routing, addIncomingClient), QXmppIncomingClient, QXmppSaslServer{Plain,DigestMd5,Anonymous}, XmppSocket ; "
                              "stub: SimSslSocket/SimLink transport, RawClient scripts (incl. pipelining), SimPasswordChecker whose replies complete in scheduler-chosen order and delay, or (30 %) a checker that only provides getPassword() so that the library's default checkPassword()/getDigest() run ; oracle: server authentication/routing model with origin attribution by unique markers");
    }

    Plan generate(quint64 seed, const QString &tier) override
    {
        Plan p;
        Prng r(derive(seed, "c16"));
        p.knobs[QStringLiteral("conns")] = r.range(1, 3);
        // which password checker: 0 the fully asynchronous one (replies completed by 'pw' ops in any order),
        // 1 one that only implements getPassword() and relies on the library's default checkPassword()/getDigest()
        p.knobs[QStringLiteral("baseChecker")] = (qint64)(mix64(seed, 0xc4ec) % 100 < 30);
        if (r.chance(0.25)) {
            // a complete DIGEST-MD5 login attempt carried through step by step (known user with the right / a wrong password,
            // or an account the checker does not know, with the empty password), then bind and a stanza to the victim
            const qint64 c = r.uniform(3);
            const qint64 u = r.weighted({ 22, 22, 22, 22, 12 });
            const qint64 kind = r.weighted({ 40, 22, 0, 14, 0, 12, 6, 6 });
            auto add = [&](const QString &k, QVector<qint64> a) { p.ops.append(mkop(k, a, {}, (quint32)r.next())); };
            add(QStringLiteral("open"), { c, 0 });
            add(QStringLiteral("pump"), {});
            add(QStringLiteral("auth"), { c, 1, u, 0, 0 });
            add(QStringLiteral("pump"), {});
            add(QStringLiteral("response"), { c, kind, u });
            add(QStringLiteral("pump"), {});
            add(QStringLiteral("pw"), { 0 });
            add(QStringLiteral("pump"), {});
            // the last step of the exchange is normally an empty response; a client may put anything there, e.g. a full
            // response naming somebody else
            if (r.chance(0.3)) {
                add(QStringLiteral("response"), { c, (qint64)r.weighted({ 40, 40, 0, 20 }), (qint64)((u + 1 + r.uniform(4)) % 5) });
            } else {
                add(QStringLiteral("response"), { c, 2, u });
            }
            add(QStringLiteral("pump"), {});
            add(QStringLiteral("open"), { c, 0 });
            add(QStringLiteral("bind"), { c, 0 });
            add(QStringLiteral("pump"), {});
            add(QStringLiteral("stanza"), { c, 0, 0, 0 });
            add(QStringLiteral("pump"), {});
        }
        const int n = (int)r.range(3, tier == QLatin1String("thorough") ? 40 : 24);
        for (int i = 0; i < n; ++i) {
            const qint64 c = r.uniform(3);
            quint32 salt = (quint32)r.next();
            switch (r.weighted({ 10, 16, 6, 4, 5, 8, 3, 22, 10, 8, 5, 3 })) {
            case 0:
                p.ops.append(mkop(QStringLiteral("open"), { c, r.weighted({ 90, 10 }) }, {}, salt));
                break;
            case 1:
                // mechanism (0 PLAIN, 1 DIGEST-MD5, 2 ANONYMOUS, 3 unknown), user, credential kind (0 right, 1 wrong, 2 malformed), sasl version
                p.ops.append(mkop(QStringLiteral("auth"), { c, r.weighted({ 60, 25, 8, 7 }), (qint64)r.weighted({ 27, 27, 27, 9, 10 }), r.weighted({ 45, 40, 15 }), (qint64)r.chance(0.3) }, {}, salt));
                break;
            case 2:
                p.ops.append(mkop(QStringLiteral("response"), { c, r.weighted({ 36, 24, 11, 10, 9, 4, 3, 3 }), (qint64)r.weighted({ 27, 27, 27, 9, 10 }) }, {}, salt));
                break;
            case 3:
                p.ops.append(mkop(QStringLiteral("abort"), { c }, {}, salt));
                break;
            case 4:
                p.ops.append(mkop(QStringLiteral("bind"), { c, (qint64)r.uniform(3) }, {}, salt));
                break;
            case 5:
                p.ops.append(mkop(QStringLiteral("pw"), { (qint64)r.uniform(4) }, {}, salt));
                break;
            case 6:
                p.ops.append(mkop(QStringLiteral("session"), { c }, {}, salt));
                break;
            case 7:
                // kind (0 message, 1 presence, 2 iq get, 3 presence subscribe), from variant, to variant
                p.ops.append(mkop(QStringLiteral("stanza"), { c, (qint64)r.uniform(4), (qint64)r.uniform(7), (qint64)r.uniform(5) }, {}, salt));
                break;
            case 8:
                p.ops.append(mkop(QStringLiteral("dl"), { c, (qint64)r.uniform(2) }, {}, salt));
                break;
            case 9:
                p.ops.append(mkop(QStringLiteral("pump"), {}, {}, salt));
                break;
            case 10:
                p.ops.append(mkop(QStringLiteral("pipe"), { c, (qint64)r.chance(0.5) }, {}, salt));   // start / flush pipelining: several elements in one segment
                break;
            case 11:
                p.ops.append(mkop(QStringLiteral("restart"), { c }, {}, salt));   // new stream header on the same connection
                break;
            }
        }
        p.ops.append(mkop(QStringLiteral("pump")));
        return p;
    }

    RunResult execute(const Plan &plan, bool verbose) override
    {
        RunResult res;
        Trace tr(verbose);
        {
            QXmppLogger logger;
            logger.setLoggingType(QXmppLogger::SignalLogging);
            QObject ctx;
            bool logging = true;   // switched off for the tear-down, whose order depends on a pointer-keyed set inside the server
            QObject::connect(&logger, &QXmppLogger::message, &ctx, [&](QXmppLogger::MessageType t, const QString &m) {
                if (logging && t != QXmppLogger::SentMessage && t != QXmppLogger::ReceivedMessage) {
                    tr.log(QStringLiteral("srv-lib: ") + m);
                }
            });
            QXmppServer server;
            server.setDomain(QStringLiteral("example.org"));
            server.setLogger(&logger);
            SimPasswordChecker checker;
            int currentConn = -1;
            QVector<int> exchangeOf(4, 0);
            checker.currentConn = &currentConn;
            checker.exchangeOf = &exchangeOf;
            BasePasswordChecker baseChecker;
            const bool useBase = plan.knob(QStringLiteral("baseChecker")) == 1;
            server.setPasswordChecker(useBase ? static_cast<QXmppPasswordChecker *>(&baseChecker) : &checker);
            QStringList connectedJids;
            QObject::connect(&server, &QXmppServer::clientConnected, &ctx, [&](const QString &jid) {
                connectedJids << jid;
                tr.log(QStringLiteral("server: clientConnected(%1)").arg(jid));
            });

            const int nAtt = (int)plan.knob(QStringLiteral("conns"), 2);
            std::vector<std::unique_ptr<Conn>> conns;   // index 3 = victim
            for (int i = 0; i < 4; ++i) {
                conns.push_back(std::make_unique<Conn>());
                Conn &c = *conns.back();
                c.link.up = true;
                c.link.faults = &res.faults;
                c.link.end[0] = &c.raw;
                c.link.onWrite = [&c](int from, const QByteArray &bytes) {
                    if (from != 1) {
                        return;
                    }
                    c.writtenFramer.feed(bytes);
                    const auto items = c.writtenFramer.take();
                    for (const auto &it : items) {
                        if (it.kind != simxml::Item::Element) {
                            continue;
                        }
                        QDomDocument doc;
                        const QDomElement el = simxml::parse(it.text, doc);
                        if (el.tagName() == QLatin1String("success")) {
                            c.successWritten = true;
                            const QDomElement authz = simxml::child(el, "authorization-identifier");
                            if (!authz.isNull() && authz.text().contains(QLatin1Char('/'))) {
                                c.boundWritten << authz.text();
                            }
                        } else if (el.tagName() == QLatin1String("iq") && el.attribute(QStringLiteral("type")) == QLatin1String("result")) {
                            const QDomElement bind = simxml::child(el, "bind");
                            if (!bind.isNull()) {
                                c.boundWritten << simxml::child(bind, "jid").text();
                            }
                        }
                    }
                };
                auto *sock = new SimSslSocket;
                sock->attach(&c.link, 1);
                c.sock = sock;
                auto *stream = new QXmppIncomingClient(sock, QStringLiteral("example.org"), &server);
                sock->setParent(stream);
                c.stream = stream;
                server.addIncomingClient(stream);
            }
            int markerNo = 0;
            QMap<QString, int> markerOrigin;      // marker -> connection index
            QMap<QString, bool> markerOriginAuthed;
            bool stanzaBeforeAuth = false, staleReplyWindow = false;

            auto violation = [&](const QString &cls, const QString &sig, const QString &detail) {
                for (const auto &v : res.violations) {
                    if (v.signature == sig) {
                        return;
                    }
                }
                tr.log(QStringLiteral("VIOLATION ") + sig);
                res.violations.append(Violation { cls, sig, detail, res.steps });
            };
            auto modelAuthed = [&](const Conn &c) { return !c.approvedUsers.isEmpty() && c.successSeen; };

            // examine what a connection has received from the server
            auto examine = [&](int ci) {
                Conn &c = *conns[ci];
                for (; c.seen < c.raw.elements.size(); ++c.seen) {
                    const QByteArray raw = c.raw.elements[c.seen];
                    QDomDocument doc;
                    const QDomElement el = simxml::parse(raw, doc);
                    const QString tag = el.tagName();
                    tr.log(QStringLiteral("conn%1 < %2").arg(ci).arg(QString::fromUtf8(raw.left(220))));
                    if (tag == QLatin1String("challenge")) {
                        const QByteArray data = QByteArray::fromBase64(el.text().toLatin1());
                        int i = data.indexOf("nonce=\"");
                        if (i >= 0) {
                            int e = data.indexOf('"', i + 7);
                            c.nonce = QString::fromLatin1(data.mid(i + 7, e - i - 7));
                        }
                    } else if (tag == QLatin1String("success")) {
                        // SASL success: only for a connection for which the checker approved some presented credentials
                        if (c.approvedUsers.isEmpty()) {
                            violation(QStringLiteral("success_without_approval"), QStringLiteral("C16:sasl_success_without_any_approval_by_the_password_checker:") + (c.exchangeMech.isEmpty() ? QStringLiteral("none") : c.exchangeMech),
                                      QStringLiteral("connection %1 got <success/> (last mechanism requested: %2) although the password checker has approved nothing for it").arg(ci).arg(c.exchangeMech));
                        }
                        c.successSeen = true;
                        // SASL2 success may carry the bound address
                        const QDomElement authz = simxml::child(el, "authorization-identifier");
                        if (!authz.isNull() && authz.text().contains(QLatin1Char('/'))) {
                            c.boundJid = authz.text();
                            c.boundJids << c.boundJid;
                        }
                    } else if (tag == QLatin1String("failure")) {
                        // nothing
                    } else if (tag == QLatin1String("iq")) {
                        const QDomElement bind = simxml::child(el, "bind");
                        if (!bind.isNull() && el.attribute(QStringLiteral("type")) == QLatin1String("result")) {
                            c.boundJid = simxml::child(bind, "jid").text();
                            c.boundJids << c.boundJid;
                            if (modelAuthed(c) && !c.approvedUsers.contains(c.boundJid.section(QLatin1Char('@'), 0, 0))) {
                                violation(QStringLiteral("identity_mismatch"), QStringLiteral("C16:resource_bound_for_user_the_connection_did_not_authenticate_as"),
                                          QStringLiteral("connection %1 got the bind result %2 but the password checker approved it only for [%3]").arg(ci).arg(c.boundJid, QStringList(c.approvedUsers.values()).join(QLatin1Char(','))));
                            }
                            if (!modelAuthed(c)) {
                                violation(QStringLiteral("bind_before_auth"), QStringLiteral("C16:resource_bound_for_unauthenticated_connection"),
                                          QStringLiteral("connection %1 is not authenticated but got the bind result %2").arg(ci).arg(c.boundJid));
                            }
                        } else if (!modelAuthed(c) && ci != 3) {
                            violation(QStringLiteral("answered_before_auth"), QStringLiteral("C16:stanza_of_unauthenticated_connection_answered"),
                                      QStringLiteral("connection %1 is not authenticated but received %2").arg(ci).arg(QString::fromUtf8(raw.left(200))));
                        }
                    }
                    // routed stanzas: attribute them to their origin by marker
                    if (tag == QLatin1String("message") || tag == QLatin1String("presence") || tag == QLatin1String("iq")) {
                        for (auto it = markerOrigin.begin(); it != markerOrigin.end(); ++it) {
                            if (!raw.contains(it.key().toUtf8())) {
                                continue;
                            }
                            const int origin = it.value();
                            // replies and bounces generated by the server or by a peer carry the marker too, but they are not
                            // a routed copy of the origin's stanza
                            const QString stype = el.attribute(QStringLiteral("type"));
                            if (stype == QLatin1String("error") || stype == QLatin1String("result")) {
                                continue;
                            }
                            const Conn &o = *conns[origin];
                            const QString from = el.attribute(QStringLiteral("from"));
                            if (origin == ci) {
                                continue;
                            }
                            // ground truth for the origin: what the checker approved and what the server itself has written
                            // to the origin so far (delivered or not)
                            const bool originAuthed = !o.approvedUsers.isEmpty() && o.successWritten;
                            if (!originAuthed) {
                                violation(QStringLiteral("routed_for_unauthenticated"), QStringLiteral("C16:stanza_of_unauthenticated_or_unbound_connection_routed:") + tag,
                                          QStringLiteral("connection %1 received '%2' which connection %3 sent without being authenticated and bound; from='%4'").arg(ci).arg(it.key()).arg(origin).arg(from));
                                continue;
                            }
                            const bool sub = tag == QLatin1String("presence") && (el.attribute(QStringLiteral("type")) == QLatin1String("subscribe") || el.attribute(QStringLiteral("type")) == QLatin1String("subscribed"));
                            bool own = false;
                            QString bare;
                            for (const auto &bj : std::as_const(o.boundWritten)) {
                                const QString b = bj.section(QLatin1Char('/'), 0, 0);
                                if (from == bj || from == b) {
                                    own = true;
                                    bare = b;
                                }
                            }
                            Q_UNUSED(sub);
                            // a connection that authenticated (again) but has not bound a resource yet is stamped with the bare
                            // address of the user it authenticated as: still the sender's own address
                            for (const auto &u : std::as_const(o.approvedUsers)) {
                                if (from == u + QStringLiteral("@example.org")) {
                                    own = true;
                                    bare = from;
                                }
                            }
                            if (!own) {
                                violation(QStringLiteral("spoofed_from"), QStringLiteral("C16:routed_stanza_carries_foreign_from:") + tag,
                                          QStringLiteral("connection %1 received '%2' with from='%3'; it was sent by connection %4 to which the server has bound [%5]").arg(ci).arg(it.key()).arg(from).arg(origin).arg(o.boundWritten.join(QLatin1Char(','))));
                                continue;
                            }
                            if (!o.approvedUsers.contains(bare.section(QLatin1Char('@'), 0, 0))) {
                                violation(QStringLiteral("identity_mismatch"), QStringLiteral("C16:connection_acts_as_user_it_did_not_authenticate_as"),
                                          QStringLiteral("connection %1 is bound as %2 but the password checker approved it only for [%3]").arg(origin).arg(o.boundWritten.join(QLatin1Char(',')), QStringList(o.approvedUsers.values()).join(QLatin1Char(','))));
                            }
                        }
                    }
                }
            };
            auto clientWrite = [&](int ci, const QByteArray &xml) {
                Conn &c = *conns[ci];
                tr.log(QStringLiteral("conn%1 > %2").arg(ci).arg(QString::fromUtf8(xml.left(200))));
                if (c.pipelining) {
                    c.outbuf += xml;
                } else {
                    c.link.write(0, xml);
                }
            };
            auto deliverTo = [&](int ci, int dir) {
                Conn &c = *conns[ci];
                if (c.link.dead || !c.link.pending(dir)) {
                    return false;
                }
                currentConn = ci;
                c.link.deliver(dir, 0);
                currentConn = -1;
                settle();
                for (int k = 0; k < 4; ++k) {
                    examine(k);
                }
                return true;
            };
            auto pumpAll = [&] {
                for (int guard = 0; guard < 400; ++guard) {
                    bool did = false;
                    for (int ci = 0; ci < 4; ++ci) {
                        did = deliverTo(ci, 0) || did;
                        did = deliverTo(ci, 1) || did;
                    }
                    if (!did) {
                        break;
                    }
                }
            };
            baseChecker.onLookup = [&](const QString &user, const QString &presented, bool known, const QString &secret) {
                if (currentConn < 0) {
                    return;
                }
                Conn &c = *conns[currentConn];
                bool approve = false;
                if (known) {
                    if (!presented.isEmpty()) {
                        approve = presented == secret;                 // PLAIN: the checker compares the presented password
                    } else {
                        approve = c.validDigestUsers.contains(user);   // digest lookup: a response computed with the real password was written
                    }
                }
                tr.log(QStringLiteral("checker(base): lookup for conn %1 user '%2' known=%3 -> model approves=%4").arg(currentConn).arg(user).arg(known).arg(approve));
                if (approve) {
                    c.approvedUsers.insert(user);
                }
            };
            auto completeReply = [&](int k) {
                if (useBase) {
                    // the default checkPassword()/getDigest() finish their replies through a zero timer
                    auto *disp = Dispatcher::instance();
                    const int due = disp->dueCount();
                    if (due > 0) {
                        disp->fireOneDue(k % due);
                        settle();
                        for (int kx = 0; kx < 4; ++kx) {
                            examine(kx);
                        }
                    }
                    return;
                }
                if (checker.pending.isEmpty()) {
                    return;
                }
                PendingReply pr = checker.pending.takeAt(k % checker.pending.size());
                if (!pr.reply) {
                    return;
                }
                Conn &c = *conns[pr.conn];
                tr.log(QStringLiteral("checker: reply for conn %1 exchange #%2 user '%3' approves=%4 (current exchange #%5)").arg(pr.conn).arg(pr.exchange).arg(pr.user).arg(pr.approves).arg(c.exchange));
                if (pr.exchange != c.exchange) {
                    staleReplyWindow = true;
                    res.faults[QStringLiteral("password_reply_of_superseded_exchange")]++;
                }
                // model: the checker approved (user, password) / the digest response computed with the right password verifies
                if (pr.approves && (!pr.digest || c.validDigestUsers.contains(pr.user))) {
                    c.approvedUsers.insert(pr.user);
                }
                currentConn = pr.conn;
                pr.reply->finish();
                currentConn = -1;
                settle();
                for (int kx = 0; kx < 4; ++kx) {
                    examine(kx);
                }
            };
            const QByteArray header = "<?xml version='1.0'?><stream:stream xmlns='jabber:client' xmlns:stream='http://etherx.jabber.org/streams' to='example.org' version='1.0'>";

            // ---------------- prologue: the victim (connection 3) logs in properly as alice/desk
            {
                clientWrite(3, header);
                pumpAll();
                conns[3]->exchange++;
                exchangeOf[3] = conns[3]->exchange;
                conns[3]->exchangeUser = QStringLiteral("alice");
                conns[3]->exchangeMech = QStringLiteral("PLAIN");
                clientWrite(3, "<auth xmlns='urn:ietf:params:xml:ns:xmpp-sasl' mechanism='PLAIN'>" + QByteArray(QByteArray("\0alice\0alice-secret", 19)).toBase64() + "</auth>");
                pumpAll();
                completeReply(0);
                pumpAll();
                clientWrite(3, header);
                pumpAll();
                clientWrite(3, "<iq type='set' id='vb1'><bind xmlns='urn:ietf:params:xml:ns:xmpp-bind'><resource>desk</resource></bind></iq>");
                pumpAll();
                clientWrite(3, "<presence/>");
                pumpAll();
            }
            const QString victimFull = conns[3]->boundJid;
            if (victimFull != QLatin1String("alice@example.org/desk")) {
                res.probes[QStringLiteral("victim_login_failed")]++;
            }

            for (const auto &op : plan.ops) {
                Prng r(mix64(plan.seed, op.salt));
                const QString &k = op.kind;
                const int ci = (int)(op.arg(0) % nAtt);
                Conn &c = *conns[ci];
                if (k == QLatin1String("open") || k == QLatin1String("restart")) {
                    if (!c.link.dead && !c.raw.peerClosed) {
                        QByteArray h = header;
                        if (k == QLatin1String("open") && op.arg(1) == 1) {
                            h.replace("to='example.org'", "to='other.example'");
                        }
                        c.opened = true;
                        clientWrite(ci, h);
                    }
                } else if (k == QLatin1String("auth")) {
                    if (c.opened) {
                        static const char *mechs[] = { "PLAIN", "DIGEST-MD5", "ANONYMOUS", "X-UNKNOWN" };
                        const QString mech = QString::fromLatin1(mechs[op.arg(1) % 4]);
                        const int u = (int)(op.arg(2) % 5);
                        c.exchange++;
                        exchangeOf[ci] = c.exchange;
                        c.exchangeMech = mech;
                        c.exchangeUser = mech == QLatin1String("PLAIN") ? QString::fromLatin1(kUsers[u]) : QString();
                        c.digestResponseValid = false;
                        QByteArray initial;
                        if (mech == QLatin1String("PLAIN")) {
                            QByteArray pw = kPasswords[u];
                            if (op.arg(3) == 1) {
                                pw = "wrong-" + pw;
                            }
                            initial = QByteArray(1, '\0') + kUsers[u] + QByteArray(1, '\0') + pw;
                            if (op.arg(3) == 2) {
                                initial = QByteArray(kUsers[u]) + ":" + pw;   // malformed
                            }
                        }
                        if (op.arg(4)) {
                            clientWrite(ci, "<authenticate xmlns='urn:xmpp:sasl:2' mechanism='" + mech.toLatin1() + "'>" + (initial.isEmpty() ? QByteArray() : "<initial-response>" + initial.toBase64() + "</initial-response>") +
                                                (r.chance(0.6) ? "<bind xmlns='urn:xmpp:bind:0'><tag>sim</tag></bind>" : "") + "</authenticate>");
                        } else {
                            clientWrite(ci, "<auth xmlns='urn:ietf:params:xml:ns:xmpp-sasl' mechanism='" + mech.toLatin1() + "'>" + (initial.isEmpty() ? QByteArray("=") : initial.toBase64()) + "</auth>");
                        }
                    }
                } else if (k == QLatin1String("response")) {
                    if (c.opened) {
                        // kind: 0 DIGEST-MD5 response with the right password, 1 with a wrong one, 2 empty response,
                        // 3 a replay: a response that was valid for ANOTHER challenge (right password, foreign nonce) - what somebody
                        // who recorded a login, but does not know the password, can send
                        const int u = (int)(op.arg(2) % 5);
                        QByteArray data;
                        if (op.arg(1) == 4) {
                            // a PLAIN-shaped payload (authzid NUL authcid NUL password) inside a <response/>: legal bytes, meaningless
                            // at this point of any exchange - it must not change who the exchange is about
                            data = QByteArray(1, '\0') + kUsers[u] + QByteArray(1, '\0') + (r.chance(0.5) ? QByteArray(kPasswords[u]) : QByteArray("whatever"));
                            res.faults[QStringLiteral("plain_shaped_payload_in_response")]++;
                        } else if (op.arg(1) != 2) {
                            const bool replay = op.arg(1) == 3;
                            const QByteArray user = kUsers[u], realm = "example.org", nonce = replay ? QByteArray("bm9uY2Ugb2YgYW5vdGhlciBsb2dpbg==") : c.nonce.toLatin1(), cnonce = "cn" + QByteArray::number((int)r.uniform(100000)), nc = "00000001", uri = "xmpp/example.org";
                            if (replay) {
                                res.faults[QStringLiteral("digest_response_replayed_with_foreign_nonce")]++;
                            }
                            QByteArray pw = kPasswords[u];
                            if (op.arg(1) == 1) {
                                pw += "x";
                            }
                            const QByteArray a1 = simcrypto::hash("MD5", user + ":" + realm + ":" + pw) + ":" + nonce + ":" + cnonce;
                            const QByteArray resp = simcrypto::hash("MD5", simcrypto::hash("MD5", a1).toHex() + ":" + nonce + ":" + nc + ":" + cnonce + ":auth:" + simcrypto::hash("MD5", "AUTHENTICATE:" + uri).toHex()).toHex();
                            data = "username=\"" + user + "\",realm=\"" + realm + "\",nonce=\"" + nonce + "\",cnonce=\"" + cnonce + "\",nc=" + nc + ",qop=auth,digest-uri=\"" + uri + "\",response=" + resp + ",charset=utf-8";
                            // what somebody without the password can still send: the directive left out, left empty, or cut
                            // down to a few characters of a digest computed with a guessed password
                            const int kind = (int)op.arg(1);
                            if (kind == 5) {
                                data.replace(",response=" + resp, "");
                                res.faults[QStringLiteral("digest_response_directive_missing")]++;
                            } else if (kind == 6) {
                                data.replace(",response=" + resp, ",response=");
                                res.faults[QStringLiteral("digest_response_directive_empty")]++;
                            } else if (kind == 7) {
                                const QByteArray guess = simcrypto::hash("MD5", user + ":guess:" + nonce).toHex().left(1 + (int)r.uniform(2));
                                data.replace(",response=" + resp, ",response=" + guess);
                                res.faults[QStringLiteral("digest_response_truncated_guess")]++;
                            }
                            if (c.exchangeMech == QLatin1String("DIGEST-MD5")) {
                                c.exchangeUser = QString::fromLatin1(user);
                                c.digestResponseValid = op.arg(1) == 0 && !c.nonce.isEmpty();   // a replay (kind 3) proves nothing
                                // several responses may be in flight in one exchange; the server verifies each against the
                                // digest of the user it names, so knowing that user's password is what counts
                                if (c.digestResponseValid) {
                                    c.validDigestUsers.insert(QString::fromLatin1(user));
                                }
                            }
                        }
                        clientWrite(ci, "<response xmlns='urn:ietf:params:xml:ns:xmpp-sasl'>" + (data.isEmpty() ? QByteArray() : data.toBase64()) + "</response>");
                    }
                } else if (k == QLatin1String("abort")) {
                    if (c.opened) {
                        clientWrite(ci, "<abort xmlns='urn:ietf:params:xml:ns:xmpp-sasl'/>");
                    }
                } else if (k == QLatin1String("bind")) {
                    if (c.opened) {
                        static const char *resnames[] = { "phone", "desk", "" };
                        if (!modelAuthed(c)) {
                            stanzaBeforeAuth = true;
                            res.faults[QStringLiteral("bind_before_authentication")]++;
                        }
                        clientWrite(ci, "<iq type='set' id='b" + QByteArray::number(++markerNo) + "'><bind xmlns='urn:ietf:params:xml:ns:xmpp-bind'><resource>" + resnames[op.arg(1) % 3] + "</resource></bind></iq>");
                    }
                } else if (k == QLatin1String("session")) {
                    if (c.opened) {
                        clientWrite(ci, "<iq type='set' id='s" + QByteArray::number(++markerNo) + "'><session xmlns='urn:ietf:params:xml:ns:xmpp-session'/></iq>");
                    }
                } else if (k == QLatin1String("stanza")) {
                    if (c.opened) {
                        const QString marker = QStringLiteral("MARK%1x").arg(++markerNo);
                        markerOrigin[marker] = ci;
                        if (!modelAuthed(c) || c.boundJid.isEmpty()) {
                            stanzaBeforeAuth = true;
                            res.faults[QStringLiteral("stanza_before_authentication_or_bind")]++;
                        }
                        QByteArray from;
                        bool explicitEmptyFrom = false;
                        const QString own = c.boundJid;
                        switch (op.arg(2)) {
                        case 0:
                            break;   // no from
                        case 1:
                            explicitEmptyFrom = true;   // from='' (an empty address is not the sender's address either)
                            res.faults[QStringLiteral("from_attribute_present_but_empty")]++;
                            break;
                        case 2:
                            from = own.toUtf8();
                            break;
                        case 3:
                            from = own.section(QLatin1Char('/'), 0, 0).toUtf8();
                            break;
                        case 4:
                            from = victimFull.toUtf8();
                            res.faults[QStringLiteral("from_set_to_victim_address")]++;
                            break;
                        case 5:
                            from = "alice@example.org";
                            res.faults[QStringLiteral("from_set_to_victim_address")]++;
                            break;
                        default:
                            from = "admin@example.org/console";
                            res.faults[QStringLiteral("from_set_to_foreign_address")]++;
                        }
                        static const char *tos[] = { "alice@example.org/desk", "alice@example.org", "bob@example.org", "example.org", "" };
                        const QByteArray to = tos[op.arg(3) % 5];
                        const QByteArray fa = from.isEmpty() ? (explicitEmptyFrom ? QByteArray(" from=''") : QByteArray()) : " from='" + from + "'";
                        const QByteArray ta = to.isEmpty() ? QByteArray() : " to='" + to + "'";
                        const QByteArray mk = marker.toUtf8();
                        switch (op.arg(1)) {
                        case 0:
                            clientWrite(ci, "<message" + fa + ta + " type='chat'><body>" + mk + "</body></message>");
                            break;
                        case 1:
                            clientWrite(ci, "<presence" + fa + ta + "><status>" + mk + "</status></presence>");
                            break;
                        case 2:
                            clientWrite(ci, "<iq" + fa + ta + " type='get' id='" + mk + "'><query xmlns='jabber:iq:version'/></iq>");
                            break;
                        default:
                            clientWrite(ci, "<presence" + fa + ta + " type='subscribe'><status>" + mk + "</status></presence>");
                        }
                    }
                } else if (k == QLatin1String("pw")) {
                    completeReply((int)op.arg(0));
                } else if (k == QLatin1String("dl")) {
                    deliverTo(ci, (int)op.arg(1));
                } else if (k == QLatin1String("pump")) {
                    pumpAll();
                } else if (k == QLatin1String("pipe")) {
                    if (c.pipelining) {
                        c.pipelining = false;
                        if (!c.outbuf.isEmpty()) {
                            res.faults[QStringLiteral("elements_pipelined_in_one_segment")]++;
                            c.link.write(0, c.outbuf);
                            c.outbuf.clear();
                        }
                    } else if (op.arg(1)) {
                        c.pipelining = true;
                    }
                }
                settle();
                for (int kx = 0; kx < 4; ++kx) {
                    examine(kx);
                }
                res.steps++;
            }
            // quiesce: flush pipelines, deliver everything, complete every password reply
            for (int ci = 0; ci < 4; ++ci) {
                Conn &c = *conns[ci];
                if (c.pipelining && !c.outbuf.isEmpty()) {
                    c.link.write(0, c.outbuf);
                    c.outbuf.clear();
                }
                c.pipelining = false;
            }
            pumpAll();
            for (int guard = 0; guard < 50 && (useBase ? Dispatcher::instance()->dueCount() > 0 : !checker.pending.isEmpty()); ++guard) {
                completeReply(0);
                pumpAll();
            }
            // clientConnected(U) only for connections authenticated as U
            for (const auto &jid : std::as_const(connectedJids)) {
                const QString user = jid.section(QLatin1Char('@'), 0, 0);
                bool ok = false;
                for (int ci = 0; ci < 4; ++ci) {
                    const Conn &c = *conns[ci];
                    // the announcement may concern a connection that has meanwhile gone (reply of the checker after the
                    // disconnect): what the property asks is that the checker approved that user on some connection
                    if (c.approvedUsers.contains(user)) {
                        ok = true;
                    }
                }
                if (!ok) {
                    violation(QStringLiteral("connected_without_auth"), QStringLiteral("C16:client_accepted_as_user_without_approved_authentication"),
                              QStringLiteral("the server announced clientConnected(%1) but no connection was authenticated as that user and bound to that address").arg(jid));
                }
            }
            res.nontrivial = stanzaBeforeAuth || staleReplyWindow;
            logging = false;
            // tear down: sockets are owned by their streams, streams by the server
            for (auto &c : conns) {
                if (c->sock) {
                    c->sock->link = nullptr;
                }
            }
        }
        settle();
        res.traceHash = tr.hash.value();
        res.trace = tr.lines;
        return res;
    }
    QVector<Plan> simplerKnobs(const Plan &p) override
    {
        QVector<Plan> out;
        if (p.knob(QStringLiteral("conns")) > 1) {
            Plan q = p;
            q.knobs[QStringLiteral("conns")] = p.knob(QStringLiteral("conns")) - 1;
            out << q;
        }
        return out;
    }
};

static EngineRegistrar reg(new C16Engine);

}  // namespace
