// C11 — carbon copies are trusted only when they come from the user's own account.
#include "session_world.h"

#include "QXmppCarbonManager.h"
#include "QXmppCarbonManagerV2.h"
#include "QXmppClientExtension.h"
#include "QXmppMessage.h"
#include "QXmppMessageHandler.h"

using namespace sim;

namespace {

struct Presented {
    QString via;
    QString body, from, to, id;
    int type;
    bool forwarded;
    int step;
};

class CaptureHandler : public QXmppClientExtension, public QXmppMessageHandler
{
public:
    QList<Presented> *out = nullptr;
    int *step = nullptr;
    bool handleMessage(const QXmppMessage &m) override
    {
        out->append({ QStringLiteral("handler"), m.body(), m.from(), m.to(), m.id(), (int)m.type(), m.isCarbonForwarded(), *step });
        return false;
    }
};

struct Wrapper {
    int no;
    bool sent;
    QString outerFrom;   // "" = absent
    bool fromAbsent;
    QString innerBody, innerFrom, innerTo, innerId;
    bool legit;          // outer from == own bare JID at delivery
    bool dontCare;       // case variant of the own bare JID
    bool nestedOnly;     // marker sits one wrapper level deeper: must never surface
    bool wellFormed;
    int step;
    bool delivered = false;   // the stanza has reached the client's socket
    bool viewAgrees = true;   // the client's idea of its own bare JID equals the address the server bound
};

class C11Engine : public Engine
{
public:
    QString property() const override { return QStringLiteral("C11"); }
    QString describe() const override
    {
        return QStringLiteral("real: QXmppClient stanza/message pipelines, QXmppCarbonManager, QXmppCarbonManagerV2, bind (own address is what the server assigned) ; "
                              "stub: transport, ScriptedServer delivering wrappers from arbitrary senders inside a live session (adversarial party); schedule adds little and the evidence says so");
    }

    Plan generate(quint64 seed, const QString &tier) override
    {
        Plan p;
        Prng r(derive(seed, "c11"));
        auto &k = p.knobs;
        k[QStringLiteral("scramIter")] = 1;
        p.sknobs[QStringLiteral("sasl1")] = QStringLiteral("SCRAM-SHA-1");
        k[QStringLiteral("sm")] = r.uniform(3);
        k[QStringLiteral("otherJid")] = r.chance(0.4);     // the server assigns another localpart/resource than configured
        k[QStringLiteral("mgr")] = r.uniform(3);           // 0: V2, 1: old manager, 2: both
        k[QStringLiteral("autoReconnect")] = 0;
        if (r.chance(0.3)) {
            p.sknobs[QStringLiteral("sasl2")] = QStringLiteral("SCRAM-SHA-1");
            k[QStringLiteral("bind2")] = 1;
            p.sknobs[QStringLiteral("bind2f")] = QStringLiteral("urn:xmpp:carbons:2");
        }
        p.ops.append(mkop(QStringLiteral("connect")));
        p.ops.append(mkop(QStringLiteral("pump")));
        const int n = (int)r.range(3, tier == QLatin1String("thorough") ? 30 : 16);
        for (int i = 0; i < n; ++i) {
            quint32 salt = (quint32)r.next();
            switch (r.weighted({ 70, 10, 8, 6, 6 })) {
            case 0:
                // sent/received, sender variant, shape
                p.ops.append(mkop(QStringLiteral("carbon"), { (qint64)r.uniform(2), (qint64)r.uniform(21), r.weighted({ 52, 13, 13, 8, 7, 7 }) }, {}, salt));
                break;
            case 1:
                p.ops.append(mkop(QStringLiteral("dl"), { 1 }, {}, salt));
                break;
            case 2:
                p.ops.append(mkop(QStringLiteral("pump"), {}, {}, salt));
                break;
            case 3:
                p.ops.append(mkop(QStringLiteral("cut"), {}, {}, salt));
                break;
            case 4:
                p.ops.append(mkop(QStringLiteral("reconn"), { (qint64)r.chance(0.5) }, {}, salt));
                p.ops.append(mkop(QStringLiteral("pump"), {}, {}, (quint32)r.next()));
                break;
            }
        }
        p.ops.append(mkop(QStringLiteral("pump")));
        return p;
    }

    RunResult execute(const Plan &plan, bool verbose) override
    {
        RunResult res;
        Trace tr(verbose);
        {
            SessionWorld w(plan, tr, res);
            QObject ctx;
            QList<Presented> presented;
            QList<Wrapper> wrappers;
            w.onNewLink = [&](SimLink *l) {
                l->onDeliver = [&](int dir, const QByteArray &bytes) {
                    if (dir != 1) {
                        return;
                    }
                    for (auto &wr : wrappers) {
                        if (!wr.delivered && bytes.contains(wr.innerBody.toUtf8())) {
                            wr.delivered = true;
                            // judged at the moment of delivery (a stanza may be resent on a resumed stream)
                            if (auto *c = w.server->current()) {
                                wr.viewAgrees = w.client->configuration().jidBare() == c->fullJid.section(QLatin1Char('/'), 0, 0);
                                if (!wr.viewAgrees) {
                                    w.probe("own_address_view_differs_after_resumption");
                                }
                            }
                        }
                    }
                };
            };
            w.createClient(QXmppClient::NoExtensions);
            auto *cap = new CaptureHandler;
            cap->out = &presented;
            cap->step = &w.stepNo;
            w.client->addExtension(cap);
            const int mgr = (int)plan.knob(QStringLiteral("mgr"));
            QXmppCarbonManager *v1 = nullptr;
            if (mgr == 0 || mgr == 2) {
                w.client->addNewExtension<QXmppCarbonManagerV2>();
            }
            if (mgr == 1 || mgr == 2) {
                v1 = w.client->addNewExtension<QXmppCarbonManager>();
                QObject::connect(v1, &QXmppCarbonManager::messageReceived, &ctx, [&](const QXmppMessage &m) {
                    presented.append({ QStringLiteral("v1.received"), m.body(), m.from(), m.to(), m.id(), (int)m.type(), m.isCarbonForwarded(), w.stepNo });
                });
                QObject::connect(v1, &QXmppCarbonManager::messageSent, &ctx, [&](const QXmppMessage &m) {
                    presented.append({ QStringLiteral("v1.sent"), m.body(), m.from(), m.to(), m.id(), (int)m.type(), m.isCarbonForwarded(), w.stepNo });
                });
            }
            QObject::connect(w.client, &QXmppClient::messageReceived, &ctx, [&](const QXmppMessage &m) {
                presented.append({ QStringLiteral("client.messageReceived"), m.body(), m.from(), m.to(), m.id(), (int)m.type(), m.isCarbonForwarded(), w.stepNo });
            });
            // the server never answers the carbons enable request by itself; nothing in this property depends on it
            int counter = 0;

            for (const auto &op : plan.ops) {
                Prng r(mix64(plan.seed, op.salt));
                const QString &k = op.kind;
                ServerConn *conn = w.server->current();
                if (k == QLatin1String("carbon")) {
                    if (conn && conn->sessionReady && w.client->isConnected()) {
                        const QString full = conn->fullJid;
                        const QString bare = full.section(QLatin1Char('/'), 0, 0);
                        const QString local = bare.section(QLatin1Char('@'), 0, 0), domain = bare.section(QLatin1Char('@'), 1);
                        Wrapper wr {};
                        wr.no = ++counter;
                        wr.sent = op.arg(0);
                        wr.fromAbsent = false;
                        switch (op.arg(1)) {
                        case 0: case 1: case 2: case 3:
                            wr.outerFrom = bare;
                            break;
                        case 4:
                            wr.outerFrom = full;
                            break;
                        case 5:
                            wr.outerFrom = bare + QStringLiteral("/other-device");
                            break;
                        case 6:
                            wr.outerFrom = QStringLiteral("mallory@contacts.example/x");
                            break;
                        case 7:
                            wr.outerFrom = bare + QStringLiteral(".evil");
                            break;
                        case 8:
                            wr.outerFrom = QStringLiteral("x") + bare;
                            break;
                        case 9:
                            wr.outerFrom = bare + QStringLiteral("x");
                            break;
                        case 10:
                            wr.outerFrom = bare.left(bare.size() - 1);
                            break;
                        case 11:
                            wr.outerFrom = bare.mid(1);
                            break;
                        case 12:
                            wr.outerFrom = QString();   // from=''
                            break;
                        case 13:
                            wr.fromAbsent = true;
                            break;
                        case 14:
                            wr.outerFrom = domain;
                            break;
                        case 16: case 17: case 18: {
                            // same length, same localpart, same domain: only the separator differs (the bare address of a
                            // server at a look-alike domain, or a resource of it)
                            static const char seps[] = { '-', '.', '/' };
                            wr.outerFrom = local + QLatin1Char(seps[op.arg(1) - 16]) + domain;
                            break;
                        }
                        case 19:
                            // one character of the domain altered, length kept
                            wr.outerFrom = bare;
                            wr.outerFrom[wr.outerFrom.size() - 2] = wr.outerFrom[wr.outerFrom.size() - 2] == QLatin1Char('x') ? QLatin1Char('y') : QLatin1Char('x');
                            break;
                        case 20:
                            // one character of the localpart altered, length kept
                            wr.outerFrom = bare;
                            wr.outerFrom[0] = wr.outerFrom[0] == QLatin1Char('x') ? QLatin1Char('y') : QLatin1Char('x');
                            break;
                        default:
                            // case variant of the own bare address: "don't care"
                            wr.outerFrom = local.toUpper() + QLatin1Char('@') + domain;
                            wr.dontCare = wr.outerFrom != bare;
                        }
                        wr.legit = !wr.fromAbsent && wr.outerFrom == bare;
                        wr.innerBody = QStringLiteral("CARBON-%1-%2").arg(wr.no).arg(r.uniform(100000));
                        wr.innerFrom = wr.sent ? full : QStringLiteral("bob@contacts.example/phone");
                        wr.innerTo = wr.sent ? QStringLiteral("bob@contacts.example") : bare + QStringLiteral("/other-device");
                        wr.innerId = QStringLiteral("inner-%1").arg(wr.no);
                        wr.wellFormed = true;
                        wr.step = w.stepNo;
                        // After an application-initiated reconnect with the stored configuration and a *resumed* stream the
                        // client's own address is the configured one again, not the one bound earlier (no bind happens on
                        // resumption). The statement's only-if direction is judged against the address the server bound;
                        // the presentation of legitimate copies is only expected while both views agree.
                        const QByteArray fromAttr = wr.fromAbsent ? QByteArray() : " from='" + simxml::esc(wr.outerFrom).toUtf8() + "'";
                        const QByteArray innerMsg = "<message xmlns='jabber:client' from='" + simxml::esc(wr.innerFrom).toUtf8() + "' to='" + simxml::esc(wr.innerTo).toUtf8() + "' id='" + wr.innerId.toUtf8() +
                            "' type='chat'><body>" + wr.innerBody.toUtf8() + "</body><thread>t" + QByteArray::number(wr.no) + "</thread></message>";
                        const QByteArray tag = wr.sent ? "sent" : "received";
                        QByteArray payload;
                        switch (op.arg(2)) {
                        case 1:
                            // accompanied by other payloads
                            payload = "<body>outer text " + QByteArray::number(wr.no) + "</body><" + tag + " xmlns='urn:xmpp:carbons:2'><forwarded xmlns='urn:xmpp:forward:0'>" + innerMsg + "</forwarded></" + tag + "><x xmlns='urn:example:other'/>";
                            break;
                        case 2: {
                            // nested: the marker sits inside a second wrapper whose own outer sender is a contact
                            const QByteArray nested = "<message xmlns='jabber:client' from='mallory@contacts.example/x' to='" + full.toUtf8() + "'><received xmlns='urn:xmpp:carbons:2'><forwarded xmlns='urn:xmpp:forward:0'>" + innerMsg + "</forwarded></received></message>";
                            payload = "<" + tag + " xmlns='urn:xmpp:carbons:2'><forwarded xmlns='urn:xmpp:forward:0'>" + nested + "</forwarded></" + tag + ">";
                            wr.nestedOnly = true;
                            break;
                        }
                        case 4: {
                            // no carbon at the top level: a contact's forged carbon comes back inside an archive result
                            // (XEP-0313 results are sent by the own account)
                            const QByteArray forged = "<message xmlns='jabber:client' from='mallory@contacts.example/x' to='" + full.toUtf8() + "'><" + tag + " xmlns='urn:xmpp:carbons:2'><forwarded xmlns='urn:xmpp:forward:0'>" + innerMsg + "</forwarded></" + tag + "></message>";
                            payload = "<result xmlns='urn:xmpp:mam:2' queryid='q" + QByteArray::number(wr.no) + "' id='a" + QByteArray::number(wr.no) + "'><forwarded xmlns='urn:xmpp:forward:0'><delay xmlns='urn:xmpp:delay' stamp='2021-01-01T00:00:00Z'/>" + forged + "</forwarded></result>";
                            wr.nestedOnly = true;
                            break;
                        }
                        case 5: {
                            // likewise inside a plain XEP-0297 forward
                            const QByteArray forged = "<message xmlns='jabber:client' from='mallory@contacts.example/x' to='" + full.toUtf8() + "'><" + tag + " xmlns='urn:xmpp:carbons:2'><forwarded xmlns='urn:xmpp:forward:0'>" + innerMsg + "</forwarded></" + tag + "></message>";
                            payload = "<body>look what I got</body><forwarded xmlns='urn:xmpp:forward:0'>" + forged + "</forwarded>";
                            wr.nestedOnly = true;
                            break;
                        }
                        case 3:
                            // both wrappers in one stanza
                            payload = "<sent xmlns='urn:xmpp:carbons:2'><forwarded xmlns='urn:xmpp:forward:0'>" + innerMsg + "</forwarded></sent><received xmlns='urn:xmpp:carbons:2'><forwarded xmlns='urn:xmpp:forward:0'>" + innerMsg + "</forwarded></received>";
                            break;
                        default:
                            payload = "<" + tag + " xmlns='urn:xmpp:carbons:2'><forwarded xmlns='urn:xmpp:forward:0'><delay xmlns='urn:xmpp:delay' stamp='2021-01-01T00:00:00Z'/>" + innerMsg + "</forwarded></" + tag + ">";
                        }
                        wrappers.append(wr);
                        if (!wr.legit) {
                            w.fault(wr.dontCare ? "wrapper_from_case_variant" : "wrapper_from_foreign_sender");
                        } else {
                            w.fault("wrapper_from_own_bare_jid");
                        }
                        tr.log(QStringLiteral("srv: carbon #%1 %2 outer from '%3'%4 (own bare %5)").arg(wr.no).arg(QLatin1String(tag), wr.outerFrom, wr.fromAbsent ? QStringLiteral(" [absent]") : QString(), bare));
                        conn->sendStanza("<message" + fromAttr + " to='" + full.toUtf8() + "' type='chat'>" + payload + "</message>");
                    }
                } else if (k == QLatin1String("dl")) {
                    w.deliver(1);
                } else if (k == QLatin1String("reconn")) {
                    if (w.client->state() == QXmppClient::DisconnectedState && !w.connectPending) {
                        // the next session may bind another address
                        w.server->profile.assignOtherJid = op.arg(0);
                        w.connectClient();
                        w.resolveConnect(true);
                    }
                } else {
                    w.applyCommon(op);
                }
                settle();
                w.afterStep();
            }
            w.pump(nullptr);
            // ---------------- oracle over what reached the application
            int legitCount = 0, foreignCount = 0;
            for (const auto &wr : wrappers) {
                QList<Presented> hits;
                for (const auto &p : presented) {
                    if (p.body == wr.innerBody) {
                        hits.append(p);
                    }
                }
                if (wr.legit) {
                    ++legitCount;
                } else if (!wr.dontCare) {
                    ++foreignCount;
                }
                if (wr.dontCare) {
                    continue;
                }
                const QString senderClass = wr.fromAbsent ? QStringLiteral("absent") : (wr.outerFrom.isEmpty() ? QStringLiteral("empty") : (wr.outerFrom.contains(QLatin1Char('/')) ? QStringLiteral("full_jid") : QStringLiteral("bare_or_domain")));
                if ((!wr.legit || wr.nestedOnly) && !hits.isEmpty()) {
                    w.violation(QStringLiteral("forged_carbon_unwrapped"), QStringLiteral("C11:wrapper_unwrapped_although_not_from_own_bare_jid:%1:%2").arg(wr.nestedOnly ? QStringLiteral("nested") : senderClass, hits.first().via),
                                QStringLiteral("carbon #%1 with outer from '%2' was unwrapped: the inner message '%3' reached the application via %4").arg(wr.no).arg(wr.fromAbsent ? QStringLiteral("<absent>") : wr.outerFrom, wr.innerBody, hits.first().via));
                }
                if (wr.legit && !wr.nestedOnly) {
                    if (hits.isEmpty()) {
                        if (wr.delivered && wr.viewAgrees) {
                            w.violation(QStringLiteral("legit_carbon_dropped"), QStringLiteral("C11:wrapper_from_own_bare_jid_not_presented"),
                                        QStringLiteral("carbon #%1 from the own bare JID was delivered to the client but its inner message never reached the application").arg(wr.no));
                        }
                        continue;
                    }
                    for (const auto &h : hits) {
                        if (h.via == QLatin1String("handler") && !h.forwarded) {
                            // handlers see the injected message, which must carry the flag too
                        }
                        if (!h.forwarded || h.from != wr.innerFrom || h.to != wr.innerTo || h.id != wr.innerId || h.type != (int)QXmppMessage::Chat) {
                            w.violation(QStringLiteral("presented_differs_from_inner"), QStringLiteral("C11:presented_message_is_not_the_flagged_inner_message:") + h.via,
                                        QStringLiteral("carbon #%1: presented from=%2 to=%3 id=%4 forwarded=%5, inner from=%6 to=%7 id=%8").arg(wr.no).arg(h.from, h.to, h.id).arg(h.forwarded).arg(wr.innerFrom, wr.innerTo, wr.innerId));
                        }
                    }
                    w.probe("legit_carbon_presented");
                }
            }
            res.nontrivial = legitCount >= 1 && foreignCount >= 1;
            w.client->disconnectFromServer();
            w.pump(nullptr);
        }
        res.traceHash = tr.hash.value();
        res.trace = tr.lines;
        return res;
    }
    bool removable(const Plan &plan, int i) override { return plan.ops[i].kind != QLatin1String("connect"); }
    QVector<Plan> simplerKnobs(const Plan &p) override
    {
        QVector<Plan> out;
        for (const char *k : { "otherJid", "sm", "bind2" }) {
            if (p.knob(QString::fromLatin1(k))) {
                Plan q = p;
                q.knobs[QString::fromLatin1(k)] = 0;
                if (QLatin1String(k) == QLatin1String("bind2")) {
                    q.sknobs.remove(QStringLiteral("sasl2"));
                    q.sknobs.remove(QStringLiteral("bind2f"));
                }
                out << q;
            }
        }
        return out;
    }
};

static EngineRegistrar reg(new C11Engine);

}  // namespace
