#!/usr/bin/env python3
# regenerates /verif/MANIFEST.json from the table below (single source of truth for what is claimed)
import json, os
ROOT = os.path.dirname(os.path.dirname(os.path.abspath(__file__)))
props = [json.loads(l) for l in open(os.path.join(ROOT, 'properties.jsonl'))]
cfg = json.load(open(os.path.join(ROOT, 'check_config.json')))
NA = {
 "C01": "pure codec function of its input (serialize/parse round trip): no schedule, clock, fault or peer in it; not a simulation target (DESIGN.md section 6)",
 "C02": "pure function of the element parsed; no schedule, clock, fault or interleaving (DESIGN.md section 6)",
 "C14": "pure codec/HMAC/CRC function of a byte string and a key (DESIGN.md section 6)",
 "C17": "pure serialisation function of the message and the mode flag (DESIGN.md section 6)",
 "C20": "pure hash function of an info set (DESIGN.md section 6)",
}
CLAIMED = {
 "C03": ("deterministic simulation: seeded partition of the byte stream into reads (every 2-way split enumerated per sampled stream), differential oracle against one-read delivery through the same real code",
         "seeded exploration of (stream, partition) pairs through the real XmppSocket; a clean batch is evidence, not proof",
         "SimSslSocket replaces the kernel socket; the one-read delivery through the same code is the reference"),
 "C04": ("deterministic simulation with fault injection: seeded client configurations x hostile/odd server scripts x TLS handshake outcomes x cuts and redirects; wire eavesdropper that knows for every byte whether the link was encrypted + give-up check",
         "seeded search over server behaviours (including unsolicited elements at any moment and a fully scripted muted server) and handshake outcomes; safety monitor on every byte the client writes; a clean batch is evidence, not proof",
         "transport and TLS handshake outcome are simulated (no TLS records); the encrypted flag of the simulated link is the ground truth for the eavesdropper"),
 "C05": ("deterministic simulation (no schedule dimension, stated honestly): seeded (offer, disabled set, preferred, credential history incl. FAST token, SASL version) tuples through a live negotiation; first auth element compared with an independent statement of the selection rule",
         "seeded sampling of a finite configuration space through the real negotiation code against a scripted server; the evidence counts distinct tuples; not exhaustive",
         "transport and server are simulated; X-* credentials never configured"),
 "C06": ("deterministic simulation with misbehaving peer: seeded credentials, salts, iteration counts and nonces against an independent RFC 5802/2831/4616/XEP-0484 server (OpenSSL), honest and 18 misbehaving message sequences, both SASL framings, split/coalesced delivery",
         "seeded search over inputs and server histories; byte-exact conformance oracle from an independent implementation plus 'no success without server proof' monitor; a clean batch is evidence, not proof",
         "transport, nonces and server are simulated; inputs are SASLprep-stable"),
 "C07": ("deterministic simulation with fault injection: seeded histories of requests (raw and 58 manager APIs), scheduler-chosen replies (any sender, any order, duplicated, never), deferred e2ee jobs, link losses and (non-)resumptions; exactly-once counters, sender attribution, bounded completion",
         "seeded search over histories and schedules with a real client; every reply and every asynchronous completion is a scheduler decision; a clean batch is evidence, not proof",
         "transport, clock, server and encryption extension are simulated; 'don't care' sender variants are not judged"),
 "C11": ("deterministic simulation with an adversarial party inside a live session: carbon wrappers from 16 sender variants in 4 shapes, bound-address history across reconnects and resumptions; unwrap => outer from == own bare JID, presented == flagged inner message",
         "seeded search over sender strings, wrapper shapes and address histories through the real client pipelines; a clean batch is evidence, not proof",
         "transport and server simulated; little schedule dimension (stated in DESIGN.md)"),
 "C12": ("deterministic simulation with fault injection: seeded histories of roster results, authorised/forged pushes, presences, link losses and (non-)resumptions against a roster/presence reference model fed from the wire",
         "seeded search over histories; refinement against a small reference model after every step; a clean batch is evidence, not proof",
         "transport and server simulated; own-full-JID pushes are not judged"),
 "C08": ("deterministic simulation with adversarial peers inside a live session: seeded IQs (6 sender classes x 6 types x 49 payloads x id collisions with the client's own pending requests) against three extension sets, interleaved with deliveries, cuts and reconnects; reply counter per (sender, id)",
         "seeded search over inputs, configurations and interleavings with the client's own outstanding requests; a clean batch is evidence, not proof",
         "transport and server simulated; stream management off"),
 "C13": ("deterministic simulation of three cooperating actors (producer, consumer, lifetime) on the task primitive: seeded orderings incl. re-entrant calls from inside continuations and deferred deletion through the simulated dispatcher; task reference model + instance counters under ASan",
         "seeded search over operation orderings for void, copyable and move-only results; refinement against a small reference model; a clean batch is evidence, not proof; the space is small and not enumerated exhaustively",
         "no I/O involved; ASan/UBSan keep lifetime errors visible"),
 "C16": ("deterministic simulation with fault injection: real QXmppServer over simulated sockets, scripted raw clients (any order, pipelining, stream restarts) and a password checker whose replies complete in scheduler-chosen order and delay; authentication/routing model with origin attribution",
         "seeded search over client scripts and completion orders; safety monitor on everything any connection receives; a clean batch is evidence, not proof",
         "transport and password checker simulated; S2S and TLS outside"),
 "C18": ("deterministic simulation: seeded histories of manual decisions and trust messages with every storage completion scheduled (immediate / deferred / concurrent reordered); refinement against an XEP-0450 reference model, safety frame in concurrent mode",
         "seeded search over histories and completion orders against a small executable reference model; a clean batch is evidence, not proof",
         "storage completion timing simulated over the real memory storage; messages enter through QXmppClient::messageReceived"),
 "C15": ("deterministic simulation with fault injection: two real ICE agents on a simulated datagram network (QUdpSocket entry points interposed at link time), every signalling step, delivery, loss of first transmissions, duplication, reordering and timer a scheduler decision, plus a forger without credentials; twin-run safety oracle (same schedule with/without forgeries must be indistinguishable), bounded liveness, priority and data-integrity oracles after the faults stop",
         "seeded search over schedules, loss patterns and forged datagrams; a clean batch is evidence, not proof",
         "UDP (with optional full-cone NAT and a simulated STUN server), clock, timers, randomness and signalling are simulated; no TURN relay"),
 "C19": ("deterministic simulation with fault injection: one transfer per run between the real transfer manager and a scripted peer (in-band, or SOCKS5 on the receiving side), or between two real clients; seeded block size, file size (block and 16-bit counter boundaries), announcement and one fault on the block sequence, the link or the output device; success => byte-exact copy, no fault => success",
         "seeded search over (size, block size, announcement, fault kind and position, peer policy) through the real receiver and sender; a clean batch is evidence, not proof",
         "transport, server relay and the remote party are simulated; the SOCKS5 sending side (QXmppSocksServer) is outside the simulation"),
 "C09": ("deterministic simulation with fault injection: seeded histories of sends, acks (honest/adversarial), link losses and resumptions against an executable XEP-0198 reference model fed from the wire",
         "seeded search over histories and fault sequences with a real client and an independent scripted server; refinement against a small reference model after every step",
         "transport, TLS, clock and server are simulated; server-to-client delivery is element-wise"),
 "C10": ("deterministic simulation with fault injection: connection cut after the k-th delivered element for up to three attempts, reconnect by timer or application, then a fault-free attempt; safety invariants + bounded liveness",
         "seeded search over (conforming server profile, cut point, cut kind, restart mode); a clean batch is evidence, not proof",
         "transport, TLS handshake outcome, clock and server are simulated; DNS/SRV is outside the simulation"),
}
m = {
 "version": 1,
 "setup_cmd": "./check build",
 "hooks": {"guard": "QXMPP_VERIF",
           "enable": "no source hook was needed: the simulator uses existing seams (friend class TestClient, public QAbstractEventDispatcher, QSslSocket virtuals, public QXmppIncomingClient/QXmppPasswordChecker/QXmppTrustStorage interfaces) and link-time interposition of non-virtual Qt/libc symbols (clock_gettime, QRandomGenerator::_fillRange, QUuid::createUuid, QSslSocket::isEncrypted/startClientEncryption/connectToHostEncrypted/flush, QUdpSocket I/O, QDnsLookup, QAbstractSocket I/O of the library's own QXmppSocksClient) inside the qxsim executable; /verif/CMakeLists.txt passes -DQXMPP_VERIF to the static sanitised build of /repo's current tree but no source line depends on it",
           "baseline_off_cmd": "cmake --build /repo/_build -j16 && ctest --test-dir /repo/_build -j1 --timeout 900",
           "source_commits": [], "add_only": True},
 "engines": [{"name": "qxsim", "path": "/verif/build/qxsim", "serves_properties": sorted(CLAIMED.keys()),
              "kind_free_text": "deterministic simulation: seeded scheduler, simulated clock/event dispatcher/transports, fault injection, plan minimisation (ddmin + per-op simplification) and fresh-process replay; driver /verif/check"}],
 "checks": [], "not_applicable": [],
 "notes": "see DESIGN.md; known findings and fixed defects are listed in known_findings.json; independently seeded breaking changes and which checks catch them are under seeded/",
}
for p in props:
    pid = p['id']
    if pid in CLAIMED and pid in cfg:
        tech, text, note = CLAIMED[pid]
        m["checks"].append({"property_id": pid, "quick_cmd": "./check %s quick" % pid, "thorough_cmd": "./check %s thorough" % pid,
                            "evidence_file": "/verif/evidence/%s.json" % pid, "replay_cmd_template": "./check %s --replay {path}" % pid,
                            "engine": "qxsim", "level_claimed": {"category": "exploration", "text": text, "design_ref": "DESIGN.md section 5 " + pid},
                            "level_note": note, "technique": tech})
    else:
        m["not_applicable"].append({"property_id": pid, "reason": NA.get(pid, "not claimed yet: the simulation engine for this property is not finished (DESIGN.md section 5 describes the plan); it moves to checks once its check exists")})
json.dump(m, open(os.path.join(ROOT, 'MANIFEST.json'), 'w'), indent=1)
print("claimed:", [c["property_id"] for c in m["checks"]])
