#!/bin/bash
# run_all.sh [quick|thorough] : run every claimed check on the current /repo tree, one after the other
cd /verif
T=${1:-quick}
rc_all=0
for P in $(python3 -c "import json;print(' '.join(c['property_id'] for c in json.load(open('MANIFEST.json'))['checks']))"); do
  ./check $P $T > /tmp/run_all_$P.out 2>&1; rc=$?
  echo "$P rc=$rc $(tail -1 /tmp/run_all_$P.out | cut -c1-220)"
  [ $rc -ne 0 ] && rc_all=1
done
exit $rc_all
