#!/usr/bin/env python3
# gen_rerun_log.py : rebuild seeded/RERUN_ALL.log and the check_run fields of every seeded/<id>/meta.json from the
# seeded/<id>/check_quick.log files that tools/run_seeds.sh wrote (one line per seed: what was run, /repo commit, exit code)
import json, glob, os, re, collections
rows = []
for d in sorted(glob.glob('/verif/seeded/C*-*'), key=lambda x: (x.split('/')[-1].split('-')[0], int(x.split('-')[-1]))):
    sid = os.path.basename(d)
    lp = d + '/check_quick.log'
    if not os.path.exists(lp):
        rows.append((sid, None, 0, '# not run: patch does not apply to the repaired tree (inert, see NOTE.txt)'))
        continue
    log = open(lp).read().splitlines()
    header = log[0] if log else ''
    m = re.search(r'exit code (\d+)', header)
    rc = int(m.group(1)) if m else None
    nv = sum(1 for l in log if l.startswith('VIOLATION'))
    mp = d + '/meta.json'
    if os.path.exists(mp):
        meta = json.load(open(mp))
        cr = meta.setdefault('check_run', {})
        cr['header'] = header
        cr['exit_code'] = rc
        cr['caught'] = (rc == 1)
        json.dump(meta, open(mp, 'w'), indent=1)
    rows.append((sid, rc, nv, header))
out = ["# Every seeded change against the final checks: tools/run_seeds.sh applies seeded/<id>/patch.diff to /repo, runs ./check <P> quick, undoes it.",
       "# One line per seed, taken from seeded/<id>/check_quick.log (first line = what was run, against which /repo commit, exit code).",
       "# exit 1 = the check reported a violation (caught). C16-1 is inert on the repaired tree (seeded/C16-1/NOTE.txt).", ""]
for sid, rc, nv, h in rows:
    out.append(f"{sid}: exit {rc}, {nv} violation signature(s)   [{h[2:]}]")
open('/verif/seeded/RERUN_ALL.log', 'w').write('\n'.join(out) + '\n')
print(len(rows), 'seeds,', sum(1 for r in rows if r[1] == 1), 'caught')
print(collections.Counter(re.search(r'/repo (\w+)', r[3]).group(1) if re.search(r'/repo (\w+)', r[3]) else '-' for r in rows))
