#!/usr/bin/env python3
# prints the prompt given to an independent sub-agent that seeds a property-breaking change (no /verif knowledge)
import json, sys
pid = sys.argv[1]
n = sys.argv[2] if len(sys.argv) > 2 else "1"
wt = "/tmp/seed_%s" % pid if n == "1" else "/tmp/seed_%s_%s" % (pid, n)
p = [json.loads(l) for l in open('/verif/properties.jsonl') if json.loads(l)['id'] == pid][0]
import glob
known = []
for f in sorted(glob.glob('/verif/seeded/%s-*/meta.json' % pid)):
    try:
        known.append(json.load(open(f))['change'])
    except Exception:
        pass
exclude = ''
if known and n != "1":
    exclude = "\n\nOther people have already proposed the following changes for this property; yours must be a DIFFERENT one (different code site or different mechanism):\n" + "\n".join("  - " + k for k in known) + "\n"

print(f"""You are helping to evaluate a verification tool. Work ONLY inside the git worktree {wt} (a checkout of the qxmpp C++/Qt5 library, an XMPP client/server library). Do not read or write anything under /verif or /repo, and do not look at other /tmp/seed_* directories.

Here is a semantic property that the library is supposed to satisfy:

  Title: {p['title']}
  Statement: {p['statement']}
  Quantified over: {p['quantifier']['text']}
  Relevant source files: {', '.join(p['anchors']['files'])}

Your task: produce ONE realistic change (a plausible bug a developer could introduce — a refactoring slip, an off-by-one, a missing reset, a wrong comparison, a reordered statement, an optimisation that drops a case) to the library sources under {wt}/src that BREAKS this property, while
  (a) the library and its test suite still compile, and
  (b) the existing test suite still passes (the same tests pass as before your change; tst_qxmppiceconnection fails and tst_qxmppserver is flaky even without any change — ignore those two).

The change must need something SPECIFIC to manifest — a particular interleaving or ordering of events, a connection loss / fault at a particular point, a multi-step sequence of operations, an unusual but legal input, or two cooperating sites that each look fine alone. It must NOT be something any ordinary use would expose at once (e.g. not "every login fails"). Keep it small (a few lines), in the files relevant to the property, and do not add comments that give it away.{exclude}

How to build and test inside the worktree (no network is available; everything needed is installed):
  cd {wt} && cmake -G Ninja -B _build -DBUILD_TESTS=ON -DBUILD_INTERNAL_TESTS=ON -DBUILD_EXAMPLES=OFF -DCMAKE_BUILD_TYPE=RelWithDebInfo >/dev/null && cmake --build _build -j8
  ctest --test-dir _build -j4 --timeout 300
(First build takes a few minutes. Please use -j8, other agents share the machine.)

Also write a DEMONSTRATION: a small self-contained Qt test or program (put it in {wt}/demo/, e.g. demo/demo.cpp plus the exact command line to compile it against the built library in _build/src and the headers in src/base src/client src/server and _build/src, with `pkg-config --cflags --libs Qt5Core Qt5Network Qt5Xml Qt5Test`) that FAILS (non-zero exit or a printed FAIL) with your change applied and PASSES on the unchanged sources. You can use private headers (the tests in tests/ do, see tests/TestClient.h and tests/util.h for how the existing suite drives a client without a network). Verify both directions yourself, rebuilding in between. NEVER use `git stash` (the stash is shared by all worktrees of this repository and other agents work in sibling worktrees): save your change with `git diff -- src > demo/change.patch`, remove it with `git apply -R demo/change.patch` and re-apply it with `git apply demo/change.patch`.

When done, leave in the worktree:
  - your source change applied in the working tree (uncommitted) so that `git -C {wt} diff -- src` shows exactly the change,
  - {wt}/demo/ with the demonstration and a file demo/README.txt stating: the compile+run command, what the change needs in order to manifest (the specific sequence / timing / input), and what you observed with and without the change.
Then reply with a short summary: the diff, what it needs to manifest, test-suite result, demo result with/without the change. Do not commit anything.""")
