#!/bin/bash
# confirm_seed.sh <worktree> <seed-dir> : independently confirm a seeded change:
#   with the change: library + tests build, test suite passes as in the baseline, demo FAILS
#   without the change: demo PASSES
# The demo is compiled with the generic command below unless <seed-dir>/demo/build.sh exists.
set -u
WT=$1; SD=$2
LOG=$SD/confirm.log
: > $LOG
cd $WT || exit 2
git diff -- src > $SD/patch.diff
build_demo() {
  if [ -f $SD/demo/build.sh ]; then (cd $WT && bash $SD/demo/build.sh) >>$LOG 2>&1; return $?; fi
  (cd $WT && g++ -std=c++20 -fPIC demo/demo.cpp -o demo/demo -Isrc/base -Isrc/client -Isrc/server -I_build/src -Itests \
     $(pkg-config --cflags --libs Qt5Core Qt5Network Qt5Xml Qt5Test) -L_build/src -lQXmppQt5 -Wl,-rpath,$WT/_build/src) >>$LOG 2>&1
}
echo "== with change: build" >>$LOG
git apply --check -R $SD/patch.diff 2>/dev/null || { echo "patch not applied in worktree" >>$LOG; }
cmake --build _build -j8 >>$LOG 2>&1 || { echo "BUILD-WITH-CHANGE FAILED" | tee -a $LOG; exit 1; }
echo "== with change: ctest" >>$LOG
ctest --test-dir _build -j4 --timeout 600 2>&1 | tail -8 >>$LOG
FAILED_WITH=$(grep -A5 "The following tests FAILED" $LOG | grep -o "tst_[a-z0-9]*" | sort -u | tr '\n' ' ')
build_demo || { echo "DEMO BUILD FAILED (with change)" | tee -a $LOG; exit 1; }
(cd $WT && timeout 300 ./demo/demo) >>$LOG 2>&1; RC_WITH=$?
echo "== demo with change rc=$RC_WITH" >>$LOG
git apply -R $SD/patch.diff
cmake --build _build -j8 >>$LOG 2>&1 || { echo "BUILD-WITHOUT-CHANGE FAILED" | tee -a $LOG; }
build_demo
(cd $WT && timeout 300 ./demo/demo) >>$LOG 2>&1; RC_WITHOUT=$?
echo "== demo without change rc=$RC_WITHOUT" >>$LOG
git apply $SD/patch.diff
echo "tests failing with change: [$FAILED_WITH]  demo rc with=$RC_WITH without=$RC_WITHOUT" | tee -a $LOG
if [ $RC_WITH -ne 0 ] && [ $RC_WITHOUT -eq 0 ]; then echo CONFIRMED | tee -a $LOG; else echo NOT-CONFIRMED | tee -a $LOG; fi
