#!/bin/bash
# run_seeds.sh [seed-id ...] : apply every seeded change to /repo in turn, run the quick check of its property,
# record the outcome in seeded/<id>/check_quick.log, undo the change. Evidence and replay files of these runs
# go to a scratch directory (removed afterwards), never to /verif/evidence.
cd /verif
SCR=$(mktemp -d /tmp/seedrun.XXXX)
IDS=${@:-$(ls seeded)}
if [ -n "$(git -C /repo status --porcelain --untracked-files=no)" ]; then echo "/repo working tree is not clean"; exit 2; fi
for id in $IDS; do
  P=${id%%-*}
  if ! git -C /repo apply --check /verif/seeded/$id/patch.diff 2>/dev/null; then echo "$id: patch does not apply to the current tree (see NOTE.txt)"; continue; fi
  git -C /repo apply /verif/seeded/$id/patch.diff
  VERIF_EVIDENCE_DIR=$SCR/ev VERIF_REPLAY_DIR=$SCR/rp ./check $P quick > $SCR/out.txt 2>&1; rc=$?
  git -C /repo checkout -- .
  { echo "# ./check $P quick with seeded/$id/patch.diff applied to /repo $(git -C /repo rev-parse --short HEAD); exit code $rc"; grep -E "^(VIOLATION|KNOWN-FINDING|SHRUNK|C[0-9]+ quick)" $SCR/out.txt | cut -c1-400; } > seeded/$id/check_quick.log
  echo "$id: exit $rc, $(grep -c '^VIOLATION' $SCR/out.txt) violation signature(s)"
done
rm -rf $SCR
./check build >/dev/null 2>&1
