#!/usr/bin/env python3
# write_meta.py <id> <change> <needs> : writes seeded/<id>/meta.json from confirm.log and check_quick.log
import json, sys, os, re
sid, change, needs = sys.argv[1:4]
d = f"/verif/seeded/{sid}"
prop = sid.split("-")[0]
conf = [l.strip() for l in open(f"{d}/confirm.log").read().splitlines() if l.strip()][-2:]
log = open(f"{d}/check_quick.log").read().splitlines()
header = log[0] if log and log[0].startswith("#") else ""
m = re.search(r"exit code (\d+)", header)
rc = int(m.group(1)) if m else None
meta = {
 "id": sid, "property": prop,
 "origin": "independent sub-agent that was given only the property text, the one-line descriptions of earlier seeds for the property (to avoid duplicates) and its own scratch worktree of /repo (nothing from /verif)",
 "change": change, "needs_to_manifest": needs,
 "confirmed_by_me": {"how": "tools/confirm_in_scratch.sh in a scratch worktree under /tmp: library+tests build with the change, ctest compared with the baseline, the sub-agent's demo fails with the change and passes without it", "result": conf},
 "check_run": {"how": f"tools/run_seeds.sh: git -C /repo apply patch.diff; ./check {prop} quick (evidence/replays to a scratch dir); git -C /repo checkout -- .", "header": header, "exit_code": rc, "caught": rc == 1, "log": "check_quick.log"},
}
if len(sys.argv) > 4: meta["history"] = sys.argv[4]
json.dump(meta, open(f"{d}/meta.json", "w"), indent=1)
print(sid, rc, conf)
