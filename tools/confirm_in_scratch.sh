#!/bin/bash
# confirm_in_scratch.sh <base-commit> <seed-dir>... : confirm seeded changes in one scratch worktree built at <base-commit>
BASE=$1; shift
WT=/tmp/confirm_wt
git -C /repo worktree remove --force $WT 2>/dev/null
git -C /repo worktree add -q --detach $WT $BASE || exit 2
cd $WT && cmake -G Ninja -B _build -DBUILD_TESTS=ON -DBUILD_INTERNAL_TESTS=ON -DBUILD_EXAMPLES=OFF -DCMAKE_BUILD_TYPE=RelWithDebInfo >/dev/null && cmake --build _build -j8 >/dev/null 2>&1 || { echo "base build failed"; exit 2; }
for SD in "$@"; do
  rm -rf $WT/demo; cp -r $SD/demo $WT/demo
  (cd $WT && git apply $SD/patch.diff) || { echo "$SD: patch does not apply to $BASE"; continue; }
  echo "== $SD"; /verif/tools/confirm_seed.sh $WT $SD | tail -2
  (cd $WT && git checkout -- src)
done
git -C /repo worktree remove --force $WT
