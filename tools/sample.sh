#!/bin/bash
# sample.sh <prop> <start> <count> : run seeds in parallel chunks and summarise violations (development helper)
P=$1; S=$2; N=$3; J=${4:-16}
PER=$(( (N + J - 1) / J ))
TMP=$(mktemp -d)
for i in $(seq 0 $((J-1))); do
  ( /verif/build/qxsim run $P --start $((S + i*PER)) --count $PER > $TMP/o$i 2> $TMP/e$i; echo "rc=$?" >> $TMP/e$i ) &
done
wait
cat $TMP/o* | grep -v START | python3 -c "
import sys,json,collections
c=collections.Counter(); ex={}
n=0;nt=0
for l in sys.stdin:
    try: d=json.loads(l)
    except Exception: continue
    n+=1; nt+=d['nt']
    for v in d['violations']:
        c[v['sig']]+=1; ex.setdefault(v['sig'],(d['seed'],v['detail'][:260]))
print(n,'runs',nt,'nontrivial')
for k,v in c.most_common(): print(v,k,ex[k])
"
for i in $(seq 0 $((J-1))); do if ! grep -q "rc=0" $TMP/e$i; then echo "worker $i crashed: last START $(grep START $TMP/o$i | tail -1)"; grep -m3 "ERROR\|ASSERT\|runtime error" $TMP/e$i | cut -c1-250; fi; done
rm -rf $TMP
